package rfc822

import (
	"strconv"
	"strings"
)

var verifSelftestMessages = []string{
	"To: a@b.c\r\nFrom: d@e.f\r\nSubject: one\r\n\r\nbody one\r\n",
	"Subject: folded\r\n line\r\nX-Empty:\r\nContent-Type: multipart/mixed; boundary=\"xx\"\r\n\r\npreamble\r\n--xx\r\nContent-Type: text/plain\r\n\r\nfirst\r\n--xx\r\nContent-Type: message/rfc822\r\n\r\nSubject: inner\r\n\r\ninner body\r\n--xx\r\nContent-Type: multipart/alternative; boundary=yy\r\n\r\n--yy\r\n\r\na\r\n--yy\r\nContent-Type: text/html\r\n\r\n<b>b</b>\r\n--yy--\r\n--xx--\r\nepilogue\r\n",
	"no header at all",
	"A: 1\nB: 2\n\nbare line feeds\n",
	"\r\nstarts with an empty line\r\n",
}

func verifDigestSection(sb *strings.Builder, s *Section, depth int) {
	sb.WriteString(strconv.Itoa(s.header) + "," + strconv.Itoa(s.body) + "," + strconv.Itoa(s.end) + ";")
	if depth > 3 {
		return
	}
	children, err := s.Children()
	if err != nil {
		sb.WriteString("E;")
		return
	}
	for _, c := range children {
		verifDigestSection(sb, c, depth+1)
	}
}

func VerifSelftestMessages() {
	for _, m := range verifSelftestMessages {
		lit := []byte(m)
		var sb strings.Builder
		h, b := Split(lit)
		sb.WriteString(strconv.Itoa(len(h)) + "/" + strconv.Itoa(len(b)) + "|")
		verifDigestSection(&sb, Parse(lit), 0)
		hdr, err := NewHeader(h)
		if err == nil {
			n := 0
			hdr.Entries(func(key, val string) { n++ })
			sb.WriteString("|" + hdr.Get("Subject") + "|" + hdr.Get("x-empty") + "|" + strconv.Itoa(n))
		} else {
			sb.WriteString("|HE")
		}
		out, err := SetHeaderValue(lit, "X-Pm-Gluon-Id", "0123")
		if err == nil {
			sb.WriteString("|" + strconv.Itoa(len(out)))
			v, _ := GetHeaderValue(out, "X-Pm-Gluon-Id")
			sb.WriteString("|" + v)
		}
		vsymLog("digest", sb.String())
	}
	vsymAssert(true, "selftest ran")
}
