package command

import (
	"errors"

	"github.com/ProtonMail/gluon/rfcparser"
)

var verifPrefixes = []string{
	"",                                 // 0
	"a ",                               // 1
	"a LOGIN ",                         // 2
	"a SEARCH ",                        // 3
	"a FETCH 1 ",                       // 4
	"a APPEND x ",                      // 5
	"a STORE 1 ",                       // 6
	"a LIST ",                          // 7
	"a UID ",                           // 8
	"a STATUS x ",                      // 9
	"a ID ",                            // 10
	"a SEARCH OR ",                     // 11
	"a FETCH 1 BODY[",                  // 12
	"a NOOP",                           // 13
	"a SEARCH (((((((((((((((((((((((", // 14: nesting prefix (24 levels)
	"a SELECT ",                        // 15
	"a COPY 1 ",                        // 16
	"a SEARCH BEFORE ",                 // 17
	"a APPEND x (\\Seen) ",             // 18
	"a LOGIN {",                        // 19: literal size field and what follows
	"a LOGIN \"",                       // 20: inside a quoted string
	"a LIST \"\" ",                     // 21: list-mailbox argument
	"a FETCH 1 BODY[HEADER.FIELDS (",   // 22
	"a STATUS x (",                     // 23
}

// VerifC11Parse: an arbitrary byte string (after a fixed prefix that positions the parser), followed by
// end of stream, is fed through command.Parser.Parse.
//
//	(1) no run-time panic                                         (implicit)
//	(2) the parser stops reading once the stream has ended        (assertion inside the reader stub)
//	(3) an error that is not an *rfcparser.Error is only returned when the stream has ended - any other
//	    error makes the session's reader goroutine exit and the connection close without a response
//	(4) when the error will be answered with BAD, the result still carries the tag of the line
func VerifC11Parse() {
	n := vsymParam("n")
	pfx := verifPrefixes[vsymParam("prefix")]
	buf := append([]byte(pfx), vsymBytes("in", n)...)
	r := &verifReader{buf: buf, eofLimit: 8}
	p := NewParser(rfcparser.NewScannerWithReader(r))

	cmd, err := p.Parse()

	if err == nil {
		vsymCover("parsed-ok")
		if _, isDone := cmd.Payload.(*Done); !isDone {
			vsymAssert(cmd.Tag == p.LastParsedTag(), "successful parse carries the tag")
		}
		return
	}
	var perr *rfcparser.Error
	if !errors.As(err, &perr) {
		vsymCover("non-parser-error")
		vsymAssert(r.eofReads > 0, "non-parser error although the stream has not ended: connection is closed without any response")
		return
	}
	if perr.IsEOF() {
		vsymCover("parser-error-at-eof")
		// the session's command reader ends the connection silently on such an error
		vsymAssert(r.eofReads > 0, "a parser error claims the end of the stream although the stream has not ended: the line is never answered and the connection closed")
		return
	}
	vsymCover("parser-error")
	vsymAssert(cmd.Tag == p.LastParsedTag(), "BAD response must carry the tag of the offending line")
	// the session's command reader dispatches STARTTLS on the returned payload before it looks at the error:
	// a line that is answered BAD must not also be executed
	vsymAssert(cmd.Payload == nil, "a rejected line yields no command to execute")
}

// VerifC11Nesting: the call depth of the parser must not grow with the nesting of the input (a stack overflow is
// not recoverable and kills the whole server).  Under the engine k nesting levels are fed and the interpreted call
// depth is compared with the depth for k/2 levels; natively the witness is amplified (8 million levels).
func VerifC11Nesting() {
	k := vsymParam("k")
	unit := []string{"(", "NOT ", "OR ALL "}[vsymParam("unit")]
	run := func(levels int) int {
		var buf []byte
		buf = append(buf, "a SEARCH "...)
		for i := 0; i < levels; i++ {
			buf = append(buf, unit...)
		}
		buf = append(buf, "ALL"...)
		if unit == "(" {
			for i := 0; i < levels; i++ {
				buf = append(buf, ')')
			}
		}
		buf = append(buf, '\r', '\n')
		r := &verifReader{buf: buf}
		p := NewParser(rfcparser.NewScannerWithReader(r))
		d0 := vsymMaxDepth()
		_, _ = p.Parse()
		return vsymMaxDepth() - d0
	}
	if !vsymIsSym() {
		run(vsymParam("amplify"))
		return
	}
	small := run(k)
	big := run(2 * k)
	vsymCover("nesting-run")
	vsymAssert(big <= small+8, "parser call depth does not grow with the nesting depth of the input (beyond the server's nesting limit)")
}
