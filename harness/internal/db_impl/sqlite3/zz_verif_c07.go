package sqlite3

import (
	"context"
	"database/sql"
	"database/sql/driver"
	"errors"

	"github.com/ProtonMail/gluon/db"
)

// ---- a database/sql driver whose transactions only count what happens to them (native replay); under the engine
// (*sql.DB).BeginTx / (*sql.Tx).Commit / Rollback are intrinsics that keep the same counters ----

type c7Connector struct{}
type c7Driver struct{}
type c7Conn struct{}
type c7Tx struct{}

func (c7Connector) Connect(context.Context) (driver.Conn, error) { return c7Conn{}, nil }
func (c7Connector) Driver() driver.Driver                        { return c7Driver{} }
func (c7Driver) Open(string) (driver.Conn, error)                { return c7Conn{}, nil }
func (c7Conn) Prepare(string) (driver.Stmt, error)               { return nil, errors.New("verif: no statements") }
func (c7Conn) Close() error                                      { return nil }
func (c7Conn) Begin() (driver.Tx, error) {
	vsymGhostAdd("sql.begin")
	return c7Tx{}, nil
}
func (c7Tx) Commit() error {
	if vsymGhostGet("sql.failCommit") != 0 {
		vsymGhostAdd("sql.commitFailed")
		return errors.New("verif: commit failed")
	}
	vsymGhostAdd("sql.commit")
	return nil
}
func (c7Tx) Rollback() error {
	vsymGhostAdd("sql.rollback")
	if vsymGhostGet("sql.failRollback") != 0 {
		return errors.New("verif: rollback failed")
	}
	return nil
}

// VerifC07WrapTx: the transaction protocol every index write goes through (Client.Write -> wrapTx), which the
// relational stub of the other harnesses assumes: an operation that returns nil is committed exactly once; one that
// returns an error or panics is rolled back and never committed, the error / panic reaches the caller; a failing
// commit is reported as db.ErrTransactionFailed; afterwards the client's lock is free again (a second write goes
// through).
func VerifC07WrapTx() {
	var sdb *sql.DB
	if vsymIsSym() {
		sdb = &sql.DB{}
	} else {
		sdb = sql.OpenDB(c7Connector{})
	}
	c := &Client{db: sdb, debug: vsymBool("debug"), trace: vsymBool("trace")}
	outcome := vsymChoice("opOutcome", 3) // 0 nil, 1 error, 2 panic
	failCommit := vsymBool("commitFails")
	failRollback := vsymBool("rollbackFails")
	if failCommit {
		vsymGhostSet("sql.failCommit", 1)
	}
	if failRollback {
		vsymGhostSet("sql.failRollback", 1)
	}
	opErr := errors.New("verif: operation failed")
	ran := 0
	var err error
	panicked := false
	func() {
		defer func() {
			if r := recover(); r != nil {
				panicked = true
			}
		}()
		err = c.Write(context.Background(), func(ctx context.Context, tx db.Transaction) error {
			ran++
			switch outcome {
			case 1:
				return opErr
			case 2:
				panic("verif: operation panics")
			}
			return nil
		})
	}()
	begins, commits, rollbacks := vsymGhostGet("sql.begin"), vsymGhostGet("sql.commit"), vsymGhostGet("sql.rollback")
	vsymAssert(ran == 1 && begins == 1, "the operation runs once inside one transaction")
	switch outcome {
	case 0:
		vsymCover("op-ok")
		vsymAssert(!panicked, "a successful operation does not panic")
		vsymAssert(rollbacks == 0, "a successful operation is not rolled back")
		if failCommit {
			vsymAssert(commits == 0 && vsymGhostGet("sql.commitFailed") == 1, "the commit is attempted once")
			vsymAssert(err != nil && errors.Is(err, db.ErrTransactionFailed), "a failing commit is reported as a failed transaction")
		} else {
			vsymAssert(commits == 1, "a successful operation is committed exactly once")
			vsymAssert(err == nil, "a committed operation reports success")
		}
	case 1:
		vsymCover("op-error")
		vsymAssert(!panicked, "a failing operation does not panic")
		vsymAssert(commits == 0 && vsymGhostGet("sql.commitFailed") == 0, "a failed operation is never committed")
		vsymAssert(rollbacks == 1, "a failed operation is rolled back")
		vsymAssert(err != nil && errors.Is(err, opErr), "the operation's error reaches the caller")
	case 2:
		vsymCover("op-panic")
		vsymAssert(commits == 0 && vsymGhostGet("sql.commitFailed") == 0, "a panicking operation is never committed")
		vsymAssert(rollbacks == 1, "a panicking operation is rolled back")
		vsymAssert(panicked, "the panic reaches the caller")
	}
	// the write lock was released: a second write goes through (it would dead-lock otherwise)
	vsymGhostSet("sql.failCommit", 0)
	vsymGhostSet("sql.failRollback", 0)
	err2 := c.Write(context.Background(), func(ctx context.Context, tx db.Transaction) error { return nil })
	vsymAssert(err2 == nil && vsymGhostGet("sql.commit") == commits+1, "the client is usable after the transaction (lock released, next write commits)")
}
