package rfc5322

// VerifC12Nesting: header comments may nest; the call depth of the address parser must not grow with the nesting
// (a header "From: ((((((...": arrives with any message, the envelope is computed on arrival).
func VerifC12Nesting() {
	k := vsymParam("k")
	run := func(levels int) int {
		var buf []byte
		for i := 0; i < levels; i++ {
			buf = append(buf, '(')
		}
		for i := 0; i < levels; i++ {
			buf = append(buf, ')')
		}
		buf = append(buf, " a@b.c"...)
		d0 := vsymMaxDepth()
		_, _ = ParseAddressList(string(buf))
		return vsymMaxDepth() - d0
	}
	if !vsymIsSym() {
		run(vsymParam("amplify"))
		return
	}
	small := run(k)
	big := run(2 * k)
	vsymCover("nesting-run")
	vsymAssert(big <= small+8, "address parser call depth does not grow with comment nesting")
}
