# Registry of harnesses per property.  params: tier -> list of parameter sets (one engine exploration each).
import itertools


def grid(**kw):
    keys = list(kw)
    return [dict(zip(keys, vals)) for vals in itertools.product(*[kw[k] for k in keys])]


CHECKS = {}

TX_IFACE = {"pkgpath": "github.com/ProtonMail/gluon/db", "iface": "Transaction"}

# helper packages / files injected by overlay next to the harnessed package
COMPONENTS = {
    "state_export": {"dir": "internal/state", "pkgname": "state", "files": ["zz_verif_fixture.go", "zz_verif_export.go"], "vsym": True,
                     "gen_stubs": [dict(TX_IFACE, type="verifTxBase")]},
    "backend_export": {"dir": "internal/backend", "pkgname": "backend", "files": ["zz_verif_export.go", "zz_verif_export2.go", "zz_verif_backend.go", "zz_verif_c02.go"], "vsym": True,
                       "gen_stubs": [{"pkgpath": "github.com/ProtonMail/gluon/connector", "iface": "Connector", "type": "verifConnBase"}]},
    "verifdb": {"dir": "internal/verifdb", "pkgname": "verifdb", "files": ["db.go", "tx.go"], "vsym": True,
                "gen_stubs": [dict(TX_IFACE, type="txBase")]},
}

TX_STUB = dict(TX_IFACE, type="verifTxBase")

CHECKS["C16"] = {
    "explanation": "Bounded symbolic execution of gluon's message-set handling through its real go/ssa: (a) rfcparser.ParseNumber / command.ParseSeqSet on digit strings of up to 22 symbolic digits, (b) internal/state snapMsgList.{getMessagesInSeqRange,getMessagesInUIDRange,resolve*,seqRange,uidRange,binarySearchByUID,...} with every set number an arbitrary value the parser can produce and every UID of the view a strictly ascending symbolic 32-bit value.  Every assertion and run-time panic check is decided by an SMT solver (QF_BV) on every feasible path; counterexamples are replayed natively. The state-level harnesses enter through snapshot.getMessagesInRange (sequence and UID mode), the function FETCH / STORE / COPY / SEARCH call.",
    "harnesses": [
        {"name": "number", "pkg": "imap/command", "pkgname": "command", "entry": "VerifC16Number", "files": ["zz_verif_c16.go", "zz_verif_reader.go"],
         "params": {"quick": grid(digits=[1, 5, 10, 18, 19, 20]), "thorough": grid(digits=list(range(1, 23)))},
         "cover": ["number-accepted"]},
        {"name": "seqnumber", "pkg": "imap/command", "pkgname": "command", "entry": "VerifC16SeqNumber", "files": ["zz_verif_c16.go", "zz_verif_reader.go"],
         "params": {"quick": grid(digits=[1, 9, 10, 11, 19, 20]), "thorough": grid(digits=list(range(1, 23)))},
         "cover": []},
        {"name": "seq", "pkg": "internal/state", "pkgname": "state", "entry": "VerifC16Seq", "files": ["zz_verif_c16.go"],
         "params": {"quick": grid(n=[0, 1, 2, 3, 4], r=[1]) + grid(n=[2, 3], r=[2]),
                    "thorough": grid(n=[0, 1, 2, 3, 4, 5, 6], r=[1, 2]) + grid(n=[2, 3], r=[3])},
         "cover": []},
        {"name": "uid", "pkg": "internal/state", "pkgname": "state", "entry": "VerifC16UID", "files": ["zz_verif_c16.go"],
         "params": {"quick": grid(n=[0, 1, 2, 3, 4], r=[1]) + grid(n=[2, 3], r=[2]),
                    "thorough": grid(n=[0, 1, 2, 3, 4, 5, 6], r=[1, 2]) + grid(n=[2, 3], r=[3])},
         "cover": []},
    ],
    "stubs": ["uuid.New -> fresh distinct ids", "rfcparser.Reader -> fixed symbolic buffer then io.EOF"],
    "outside": ["views larger than the bound n", "sets with more ranges than r", "digit strings longer than the bound", "the wire-level BAD rendering"],
    "assumptions": ["view UIDs strictly ascending (snapshot invariant, enforced by snapMsgList.insert)", "set numbers within the parser's post-condition (checked by the number/seqnumber harnesses)"],
}

CHECKS["C17"] = {
    "explanation": "Symbolic execution of limits.IMAP.Check* (real go/ssa) with every input and every configured maximum a symbolic full-width value; both directions (accepted => within the maximum in overflow-free arithmetic; fits => accepted) decided by SMT for all values (no bound on the values). VerifC17Connector: connector MessagesCreated batches and MessageMailboxesUpdated across a full and a free mailbox: no mailbox exceeds the maximum and a refused update leaves the index unchanged.",
    "harnesses": [
        {"name": "limits", "pkg": "limits", "pkgname": "limits", "entry": "VerifC17Limits", "files": ["zz_verif_c17.go"],
         "params": {"quick": [{}], "thorough": [{}]}, "cover": []},
        {"name": "ops", "pkg": "internal/state", "pkgname": "state", "entry": "VerifC17Ops",
         "files": ["zz_verif_c17.go", "zz_verif_fixture.go", "zz_verif_world.go"], "with": ["verifdb"], "gen_stubs": [TX_STUB],
         "params": {"quick": grid(nA=[1, 2], nB=[0, 1]), "thorough": grid(nA=[0, 1, 2, 3], nB=[0, 1, 2])},
         "cover": ["accepted", "refused-by-limit"]},
        {"name": "connector", "pkg": "internal/backend", "pkgname": "backend", "entry": "VerifC17Connector", "files": ["zz_verif_backend.go", "zz_verif_c02.go", "zz_verif_c06b.go"],
         "with": ["verifdb", "state_export"],
         "gen_stubs": [{"pkgpath": "github.com/ProtonMail/gluon/connector", "iface": "Connector", "type": "verifConnBase"}],
         "params": {"quick": [{}], "thorough": [{}]}, "cover": ["connector-refused", "connector-accepted"]},
        {"name": "wire", "pkg": "internal/session", "pkgname": "session", "entry": "VerifC17Wire", "files": ["zz_verif_c18.go", "zz_verif_c18b.go", "zz_verif_c01.go", "zz_verif_c01idle.go", "zz_verif_c01idle2.go", "zz_verif_c01wire.go", "zz_verif_c17wire.go"],
         "with": ["state_export", "backend_export", "verifdb"], "goroutines": True, "concrete_time": True, "replay_timeout_s": 90,
         "extra_overlay": {"internal/response/zz_verif_decode.go": "internal/response/zz_verif_decode.go"},
         "params": {"quick": grid(k=[2, 3]), "thorough": grid(k=[4, 5])},
         "cover": ["limit-accepted", "limit-refused"]},
    ],
    "stubs": [],
    "outside": ["concurrent sessions racing between check and insert (serialised by the database write lock)"],
    "assumptions": ["counts passed by callers are non-negative (they are len() values / row counts)"],
}

CHECKS["C13"] = {
    "explanation": "Symbolic execution of the FETCH byte-exactness kernels through their real go/ssa with symbolic message bytes, offsets and lengths. VerifC13Parts: a multipart with an embedded message/rfc822 part and a text part (arbitrary body bytes): BODY[HEADER], BODY[1], BODY[1.MIME], BODY[1.HEADER], BODY[1.TEXT], BODY[1.HEADER.FIELDS (To)], BODY[2], BODY[2.MIME] compared with the exact bytes each path denotes.",
    "harnesses": [
        {"name": "partial", "pkg": "internal/response", "pkgname": "response", "entry": "VerifC13Partial", "files": ["zz_verif_c13.go"],
         "params": {"quick": grid(len=[0, 1, 2, 4]), "thorough": grid(len=[0, 1, 2, 3, 4, 5, 6, 8])}, "cover": []},
        {"name": "split", "pkg": "rfc822", "pkgname": "rfc822", "entry": "VerifSplit", "files": ["zz_verif_rfc822.go"],
         "params": {"quick": grid(n=[0, 1, 2, 3, 4, 5]), "thorough": grid(n=[0, 1, 2, 3, 4, 5, 6, 7, 8])}, "cover": []},
        {"name": "setheader", "pkg": "rfc822", "pkgname": "rfc822", "entry": "VerifSetHeader", "files": ["zz_verif_rfc822.go"],
         "params": {"quick": grid(n=[3, 4, 5]), "thorough": grid(n=[3, 4, 5, 6, 7])}, "cover": ["set-header-ok", "keyed-field"]},
        {"name": "parts", "pkg": "internal/state", "pkgname": "state", "entry": "VerifC13Parts",
         "files": ["zz_verif_c13.go"],
         "params": {"quick": grid(g=[0, 1, 2]), "thorough": grid(g=[3, 4])}, "cover": ["parts-checked"]},
        {"name": "sections", "pkg": "internal/state", "pkgname": "state", "entry": "VerifC13Sections",
         "files": ["zz_verif_c13.go"],
         "params": {"quick": grid(template=[0], n=[0, 1, 2, 3, 4]) + grid(template=[1, 2, 3], n=[0, 2, 4]), "thorough": grid(template=[0], n=list(range(0, 8))) + grid(template=[1, 2, 3], n=[0, 2, 4, 6])},
         "cover": ["sections-ok"]},
        {"name": "fields", "pkg": "rfc822", "pkgname": "rfc822", "entry": "VerifFields", "files": ["zz_verif_rfc822.go"],
         "params": {"quick": grid(n=[3, 4], fieldLen=[1]) + grid(n=[4], fieldLen=[2]), "thorough": grid(n=[3, 4, 5, 6], fieldLen=[1]) + grid(n=[4, 5, 6], fieldLen=[2])}, "cover": ["field-selected"]},
        {"name": "wire", "pkg": "internal/session", "pkgname": "session", "entry": "VerifC13Wire", "files": ["zz_verif_c18.go", "zz_verif_c18b.go", "zz_verif_c01.go", "zz_verif_c01idle.go", "zz_verif_c01idle2.go", "zz_verif_c01wire.go"],
         "with": ["state_export", "backend_export", "verifdb"], "goroutines": True, "concrete_time": True, "replay_timeout_s": 90,
         "extra_overlay": {"internal/response/zz_verif_decode.go": "internal/response/zz_verif_decode.go"},
         "params": {"quick": grid(g=[0, 1, 2]), "thorough": grid(g=[3, 4])},
         "cover": ["fetched"]},
    ],
    "stubs": [],
    "outside": ["literals longer than the byte bound", "the {n} framing text produced by fmt from len(literal)", "store round trip (C09)"],
    "assumptions": ["partial begin >= 0 and count > 0 (parser post-condition: ParseNumber / ParseNZNumber)"],
}

SCAN_SUMMARISE = [
    "(*github.com/ProtonMail/gluon/rfcparser.Scanner).ScanToken",
    "github.com/ProtonMail/gluon/rfcparser.IsAStringChar",
    "github.com/ProtonMail/gluon/rfcparser.IsAtomChar",
    "github.com/ProtonMail/gluon/rfcparser.IsQuotedSpecial",
    "github.com/ProtonMail/gluon/rfcparser.IsRespSpecial",
    "github.com/ProtonMail/gluon/rfcparser.IsQuotedChar",
    "github.com/ProtonMail/gluon/rfcparser.IsCTL",
    "github.com/ProtonMail/gluon/rfcparser.ByteToLower",
]

CHECKS["C11"] = {
    "explanation": "Symbolic execution of command.Parser.Parse and everything below it (rfcparser scanner/parser, all command builders) on an arbitrary symbolic byte string of bounded length after a fixed positioning prefix, followed by end of stream; the scanner's per-byte classification is merged into one ite term (local fork/join) so that paths correspond to distinctions the parser makes. A rejected line must not also yield a payload (the command reader dispatches STARTTLS on the payload before it looks at the error).",
    "harnesses": [
        {"name": "parse", "pkg": "imap/command", "pkgname": "command", "entry": "VerifC11Parse", "files": ["zz_verif_c11.go", "zz_verif_reader.go"],
         "params": {"quick": grid(prefix=[0], n=[1, 2, 3]) + grid(prefix=[1, 2, 3, 4, 5, 6, 7, 8, 9, 10, 11, 12, 13, 15, 16, 17, 18, 20, 21, 22, 23], n=[1, 2, 3]) + grid(prefix=[19], n=[4, 8, 12]),
                    "thorough": grid(prefix=[0], n=[1, 2, 3, 4]) + grid(prefix=list(range(1, 14)) + list(range(15, 24)), n=[1, 2, 3, 4]) + grid(prefix=[19], n=[6, 10, 14])},
         "summarise": SCAN_SUMMARISE, "cover": [], "alloc_limit": 31457280, "max_alloc": 32, "replay_mem_limit_kb": 4000000},
        {"name": "wire", "pkg": "internal/session", "pkgname": "session", "entry": "VerifC11Wire", "files": ["zz_verif_c18.go", "zz_verif_c18b.go", "zz_verif_c11wire.go"],
         "with": ["state_export", "backend_export", "verifdb"], "goroutines": True, "replay_timeout_s": 60,
         "params": {"quick": grid(state=[0, 1, 2], n=[0, 1, 2]), "thorough": grid(state=[0, 1, 2], n=[3])},
         "summarise": SCAN_SUMMARISE, "cover": ["served"]},
        {"name": "wirelines", "pkg": "internal/session", "pkgname": "session", "entry": "VerifC11WireLines", "files": ["zz_verif_c18.go", "zz_verif_c18b.go", "zz_verif_c11wire.go"],
         "with": ["state_export", "backend_export", "verifdb"], "goroutines": True, "concrete_time": True, "replay_timeout_s": 60,
         "params": {"quick": grid(m=[1, 2, 3]), "thorough": grid(m=[4, 5])},
         "cover": ["lines-served"]},
        {"name": "nesting", "pkg": "imap/command", "pkgname": "command", "entry": "VerifC11Nesting", "files": ["zz_verif_c11.go", "zz_verif_reader.go"],
         "params": {"quick": grid(unit=[0, 1, 2], k=[64], amplify=[8000000]), "thorough": grid(unit=[0, 1, 2], k=[64, 128], amplify=[8000000])},
         "cover": ["nesting-run"], "max_depth": 1000, "replay_accept_crash": True, "replay_timeout_s": 300},
    ],
    "stubs": ["rfcparser.Reader -> fixed symbolic buffer then io.EOF, counting reads past the end"],
    "outside": ["inputs longer than the byte bound", "RSS / liveness of other sessions", "the 20-errors disconnect in Session.serve (goroutines)", "TLS sniffing"],
    "assumptions": [],
}


CHECKS["C01"] = {
    "explanation": "Symbolic execution of the snapshot/responder/flush pipeline (State.PushResponder, popResponders, flushResponses, targetedExists/expunge/fetch.handle, ExistsStateUpdate.Apply, snapshot and snapMsgList mutation, FlagSet operations, response.Merge) on a directly constructed State with a symbolic initial view and a symbolic history of queued adds/removals/flag changes and flushes; of whole observer commands through the real Mailbox API (state level) and through the real Session.handleCommand -> handleStore/handleFetch/handleExpunge/handleNoop/handleCheck with a second session of the same user acting through its own handlers and queued updates delivered at symbolic points; and of the IDLE bulk sender with symbolic timer ticks.  A client mirror is rebuilt only from the untagged responses (plus the client's own computation after a .SILENT store) and compared with the snapshot after every command and with a fresh session at quiescence.",
    "harnesses": [
        {"name": "pipeline", "pkg": "internal/state", "pkgname": "state", "entry": "VerifC01Pipeline",
         "files": ["zz_verif_c01.go", "zz_verif_fixture.go"], "extra_overlay": {"internal/response/zz_verif_decode.go": "internal/response/zz_verif_decode.go"},
         "gen_stubs": [TX_STUB],
         "params": {"quick": grid(fam=[0], n=[1], k=[2]) + grid(fam=[1], n=[1], k=[3]) + grid(fam=[1, 2], n=[2], k=[2]) + grid(fam=[3], n=[3], k=[3]), "thorough": grid(fam=[0], n=[1], k=[2]) + grid(fam=[1], n=[1], k=[3, 4, 5]) + grid(fam=[1], n=[2], k=[2, 3]) + grid(fam=[2], n=[2], k=[2]) + grid(fam=[2], n=[1], k=[3]) + grid(fam=[3], n=[3], k=[3, 4])},
         "cover": []},
        {"name": "session", "pkg": "internal/session", "pkgname": "session", "entry": "VerifC01Session", "files": ["zz_verif_c18.go", "zz_verif_c18b.go", "zz_verif_c01.go"],
         "with": ["state_export", "backend_export", "verifdb"],
         "extra_overlay": {"internal/response/zz_verif_decode.go": "internal/response/zz_verif_decode.go"},
         "params": {"quick": grid(k=[2, 3]), "thorough": grid(k=[2, 3])},
         "cover": ["own-store", "own-fetch", "own-plain", "update-delivered"]},
        {"name": "idlebulk", "pkg": "internal/session", "pkgname": "session", "entry": "VerifC01IdleBulk", "files": ["zz_verif_c01idle.go"],
         "params": {"quick": [{}], "thorough": [{}]}, "cover": ["idle-bulk"]},
        {"name": "wire", "pkg": "internal/session", "pkgname": "session", "entry": "VerifC01Wire", "files": ["zz_verif_c18.go", "zz_verif_c18b.go", "zz_verif_c01.go", "zz_verif_c01idle.go", "zz_verif_c01idle2.go", "zz_verif_c01wire.go"],
         "with": ["state_export", "backend_export", "verifdb"], "goroutines": True, "concrete_time": True, "replay_timeout_s": 90,
         "extra_overlay": {"internal/response/zz_verif_decode.go": "internal/response/zz_verif_decode.go"},
         "params": {"quick": grid(k=[1, 2]), "thorough": grid(k=[3])},
         "cover": ["wire-probed", "wire-fresh-compared"]},
        {"name": "idle", "pkg": "internal/session", "pkgname": "session", "entry": "VerifC01Idle", "files": ["zz_verif_c18.go", "zz_verif_c18b.go", "zz_verif_c01.go", "zz_verif_c01idle.go", "zz_verif_c01idle2.go"],
         "with": ["state_export", "backend_export", "verifdb"], "goroutines": True,
         "extra_overlay": {"internal/response/zz_verif_decode.go": "internal/response/zz_verif_decode.go"},
         "params": {"quick": grid(k=[1, 2, 3], bulk=[0]) + grid(k=[2], bulk=[1]), "thorough": grid(k=[4], bulk=[0]) + grid(k=[3], bulk=[1])},
         "cover": ["idle-done", "idle-update-sent"]},
    ],
    "stubs": ["state.UserInterface -> verifUser (applies updates to the originating state immediately, queues for the others)", "db.Client/Transaction -> verifMiniDB (only ClearRecentFlagInMailboxOnMessage; any other call = stub missing)", "logrus -> no-op"],
    "outside": ["wire rendering of individual responses (String() via fmt)", "the goroutine hand-over between IDLE's reader and sender (the sender's loop itself is the idlebulk harness)", "true concurrency between sessions (covered as arbitrary orders of queued updates/responders and arbitrary delivery points between commands)", "histories longer than k / views larger than n", "more than two sessions"],
    "assumptions": ["UIDs of added messages are unused and above the initial content; a session's own appends carry UIDs above everything queued before"],
}

CHECKS["C05"] = {
    "explanation": "Same pipeline harness as C01, judged for the C05 obligations: a flush without expunge permission (FETCH/STORE/SEARCH) returns no EXPUNGE and never shrinks the view, a flush with permission empties the responder queue, and the client mirror (which rejects an EXISTS for a re-added message arriving before the EXPUNGE of its removed instance as a count/UID inconsistency) stays equal to the snapshot; at quiescence the view equals the mailbox membership. Session level (VerifC01Session, real handlers): while the observer's FETCH / STORE / SEARCH / UID FETCH / UID SEARCH is answered no EXPUNGE response reaches the response channel; if a removal is still held back afterwards the tagged OK carried [EXPUNGEISSUED]; after NOOP / CHECK / EXPUNGE no removal is left held back.",
    "harnesses": [
        {"name": "pipeline", "pkg": "internal/state", "pkgname": "state", "entry": "VerifC01Pipeline",
         "files": ["zz_verif_c01.go", "zz_verif_fixture.go"], "extra_overlay": {"internal/response/zz_verif_decode.go": "internal/response/zz_verif_decode.go"},
         "gen_stubs": [TX_STUB],
         "params": {"quick": grid(fam=[1], n=[1], k=[3, 4]) + grid(fam=[1], n=[2], k=[3]), "thorough": grid(fam=[1], n=[1], k=[3, 4, 5]) + grid(fam=[1], n=[2], k=[3, 4])},
         "cover": ["expunge-held-back", "expunge-queued", "exists-queued"]},
        {"name": "merge", "pkg": "internal/state", "pkgname": "state", "entry": "VerifC01Pipeline",
         "files": ["zz_verif_c01.go", "zz_verif_fixture.go"], "extra_overlay": {"internal/response/zz_verif_decode.go": "internal/response/zz_verif_decode.go"},
         "gen_stubs": [TX_STUB],
         "params": {"quick": grid(fam=[3], n=[3], k=[3]), "thorough": grid(fam=[3], n=[3], k=[3, 4]) + grid(fam=[3], n=[4], k=[3])},
         "cover": ["expunge-queued", "fetch-queued"]},
        {"name": "session", "pkg": "internal/session", "pkgname": "session", "entry": "VerifC01Session", "files": ["zz_verif_c18.go", "zz_verif_c18b.go", "zz_verif_c01.go"],
         "with": ["state_export", "backend_export", "verifdb"],
         "extra_overlay": {"internal/response/zz_verif_decode.go": "internal/response/zz_verif_decode.go"},
         "params": {"quick": grid(k=[3], c05only=[1]), "thorough": grid(k=[3], c05only=[1])},
         "cover": ["held-back", "own-search"]},
        {"name": "wire", "pkg": "internal/session", "pkgname": "session", "entry": "VerifC01Wire", "files": ["zz_verif_c18.go", "zz_verif_c18b.go", "zz_verif_c01.go", "zz_verif_c01idle.go", "zz_verif_c01idle2.go", "zz_verif_c01wire.go"],
         "with": ["state_export", "backend_export", "verifdb"], "goroutines": True, "concrete_time": True, "replay_timeout_s": 90,
         "extra_overlay": {"internal/response/zz_verif_decode.go": "internal/response/zz_verif_decode.go"},
         "params": {"quick": grid(k=[1, 2]), "thorough": grid(k=[3])},
         "cover": ["wire-probed", "wire-fresh-compared"]},
    ],
    "stubs": CHECKS["C01"]["stubs"],
    "outside": ["the [EXPUNGEISSUED] response code rendering (that the handlers put the item into their OK is part of C01's session harness)", "histories longer than k"],
    "assumptions": CHECKS["C01"]["assumptions"],
}

CHECKS["C12"] = {
    "explanation": "Symbolic execution of gluon's message parsing kernels on arbitrary symbolic byte strings of bounded length: rfc822 header parser (progress and offset ordering per step, so termination for any length follows by induction on the offset), Split, the multipart boundary scanner and Section tree (parts inside parents, ordered, disjoint), rfc5322 address/date parsers (no panic, termination at end of input). Templates: the boundary scanner on three delimiter candidates and a close delimiter with arbitrary bytes around each; nested multiparts / embedded messages reusing the parent's boundary (every part inside its parent to depth 3); the parenthesised-list writer (imap/params.go) on arbitrary string values against a lenient IMAP list tokenizer. VerifC12Structure (imap.NewParsedMessage = Structure + Envelope): a text/plain message with an arbitrary body (exact BODY text: type, parameters, size, line count), a multipart with two text parts (exact BODY text), and arbitrary bytes in the Subject / From / Content-Type / Content-Disposition value (no panic, ENVELOPE / BODY / BODYSTRUCTURE well-formed lists).",
    "harnesses": [
        {"name": "headerparser", "pkg": "rfc822", "pkgname": "rfc822", "entry": "VerifHeaderParser", "files": ["zz_verif_rfc822.go"],
         "params": {"quick": grid(n=[0, 1, 2, 3, 4, 5]), "thorough": grid(n=list(range(0, 9)))}, "cover": []},
        {"name": "boundary", "pkg": "rfc822", "pkgname": "rfc822", "entry": "VerifBoundaryScanner", "files": ["zz_verif_rfc822.go"],
         "params": {"quick": grid(n=[0, 1, 2, 3, 4, 5, 6]) + grid(n=[0], tmpl=[3]), "thorough": grid(n=list(range(0, 10))) + grid(n=[0], tmpl=[3, 4])}, "cover": []},
        {"name": "nested", "pkg": "rfc822", "pkgname": "rfc822", "entry": "VerifSectionsNested", "files": ["zz_verif_rfc822.go"],
         "params": {"quick": grid(g=[0, 1]), "thorough": grid(g=[2, 3])}, "cover": ["nested-child"]},
        {"name": "sections", "pkg": "rfc822", "pkgname": "rfc822", "entry": "VerifSections", "files": ["zz_verif_rfc822.go"],
         "params": {"quick": grid(n=[0, 3, 5, 6]), "thorough": grid(n=list(range(0, 9)))}, "cover": []},
        {"name": "structure", "pkg": "imap", "pkgname": "imap", "entry": "VerifC12Structure", "files": ["zz_verif_c12.go"],
         "params": {"quick": grid(tpl=[0], g=[0, 1, 2, 3]) + grid(tpl=[1], g=[0, 1]) + grid(tpl=[2], g=[0, 1, 2]), "thorough": grid(tpl=[0], g=[4, 5, 6]) + grid(tpl=[1], g=[2, 3]) + grid(tpl=[2], g=[3])},
         "cover": ["structure-done"]},
        {"name": "paramlist", "pkg": "imap", "pkgname": "imap", "entry": "VerifC12ParamString", "files": ["zz_verif_c12.go"],
         "params": {"quick": grid(n=[0, 1, 2], n2=[1]), "thorough": grid(n=[0, 1, 2], n2=[0, 1, 2]) + grid(n=[3], n2=[0])}, "cover": []},
        {"name": "nesting", "pkg": "rfc5322", "pkgname": "rfc5322", "entry": "VerifC12Nesting", "files": ["zz_verif_c12.go"],
         "params": {"quick": grid(k=[64], amplify=[8000000]), "thorough": grid(k=[64, 128], amplify=[8000000])},
         "cover": ["nesting-run"], "max_depth": 1000, "replay_accept_crash": True, "replay_timeout_s": 300},
    ],
    "stubs": [],
    "outside": ["inputs longer than the byte bound (reached only through the per-step progress obligations)", "encoded-word / charset decoding", "the exact MIME tree of well-formed messages (structure equality) - only containment/ordering is decided"],
    "assumptions": [],
}

STMT_OPS = list(range(0, 15))

CHECKS["C03"] = {
    "explanation": "(H03) Mailbox.Store/Expunge/Copy/Move through their real go/ssa (actions, applyMessageFlags*, AddMessagesToMailbox, MoveMessagesFromMailbox, ...) on a relational model of the index, compared with the reference semantics of the command for every initial content within the bound, flag spelling and argument; (H03b) symbolic execution of the SQLite write/read operations (real go/ssa of internal/db_impl/sqlite3 writeOps/readOps, utils.ExecQuery, GenSQLIn, MapSliceToAny, xslices.Chunk) against a recording QueryWrapper: every statement gluon sends is a concrete string plus an argument list computed by Go code; decided for every id value: statement starts with an SQL verb and addresses a schema table, placeholders = bound arguments, every input element is bound exactly once per statement kind (chunks partition the input), for list lengths on both sides of the batching limits.",
    "harnesses": [
        {"name": "statements", "pkg": "internal/db_impl/sqlite3", "pkgname": "sqlite3", "entry": "VerifC03Statements", "files": ["zz_verif_stmt.go"],
         "params": {"quick": grid(op=STMT_OPS, n=[1, 3], flags=[2]) + grid(op=[0, 1, 2, 5, 6, 7], n=[1001], flags=[1]),
                    "thorough": grid(op=STMT_OPS, n=[1, 2, 3], flags=[0, 1, 2]) + grid(op=[0, 1, 2, 3, 4, 5, 6, 7, 8, 11], n=[500, 501, 1000, 1001, 2001], flags=[1])},
         "cover": [], "max_steps": 400000000},
        {"name": "commands", "pkg": "internal/state", "pkgname": "state", "entry": "VerifC03Commands",
         "files": ["zz_verif_c03.go", "zz_verif_fixture.go", "zz_verif_world.go"], "with": ["verifdb"], "gen_stubs": [TX_STUB],
         "params": {"quick": grid(nA=[1, 2], peer=[0], lean=[0]) + grid(nA=[1], peer=[1], lean=[0]) + grid(nA=[2], peer=[1], lean=[1]) + grid(nA=[1, 2], peer=[0], lean=[0], stale=[1]), "thorough": grid(nA=[1, 2, 3], peer=[0], lean=[0]) + grid(nA=[1, 2], peer=[1], lean=[0])},
         "cover": ["command-ok"]},
    ],
    "stubs": ["internal/verifdb relational model behind db.Client (byte-exact flag values, AUTOINCREMENT UIDs, UNIQUE constraints)", "state.Connector -> succeeds, no remote updates", "utils.QueryWrapper -> recorder that accepts every statement; row iteration reports no rows"],
    "outside": ["what a well-formed, correctly bound statement does inside SQLite (C08, not applicable)", "message bytes in the store (C09)"],
    "assumptions": [],
}

CHECKS["C02"] = {
    "explanation": "Symbolic execution of the update pipeline (State.ApplyUpdate, every Update.Filter/Apply reached, responders, flush, and the real producers AddMessagesToMailbox / RemoveMessagesFromMailbox / actionAddMessagesToMailbox / actionRemoveMessagesFromMailbox / applyMessageFlags{Added,Removed,Set} / NewRemote*MessageFlagsStateUpdate) with an observing state, an acting state and the connector on one mailbox of the relational model; producing a change, delivering its update and the observer's flushes are separate symbolic events; at quiescence the observer's snapshot is compared with the snapshot a freshly selecting state loads from the index.",
    "harnesses": [
        {"name": "converge", "pkg": "internal/state", "pkgname": "state", "entry": "VerifC02Converge",
         "files": ["zz_verif_c02.go", "zz_verif_fixture.go", "zz_verif_world.go"], "with": ["verifdb"], "gen_stubs": [TX_STUB],
         "params": {"quick": grid(fam=[4], n=[1], k=[3, 4]) + grid(fam=[1], n=[1], k=[4, 5]) + grid(fam=[2], n=[1], k=[3, 4]) + grid(fam=[3], n=[1], k=[4]), "thorough": grid(fam=[4], n=[1, 2], k=[4, 5]) + grid(fam=[1], n=[1], k=[4, 5, 6]) + grid(fam=[2], n=[1], k=[3, 4, 5]) + grid(fam=[3], n=[1], k=[4, 5]) + grid(fam=[1], n=[2], k=[4]) + grid(fam=[0], n=[1], k=[4])},
         "cover": ["update-delivered"]},
        {"name": "connector", "pkg": "internal/backend", "pkgname": "backend", "entry": "VerifC02Connector", "files": ["zz_verif_backend.go", "zz_verif_c02.go"],
         "with": ["verifdb", "state_export"],
         "gen_stubs": [{"pkgpath": "github.com/ProtonMail/gluon/connector", "iface": "Connector", "type": "verifConnBase"}],
         "params": {"quick": grid(k=[1, 2, 3]), "thorough": grid(k=[3, 4])},
         "cover": ["mailboxes-updated", "flags-updated", "deleted"]},
        {"name": "connector-realqueue", "pkg": "internal/backend", "pkgname": "backend", "entry": "VerifC02Connector", "goroutines": True, "files": ["zz_verif_backend.go", "zz_verif_c02.go"],
         "with": ["verifdb", "state_export"],
         "gen_stubs": [{"pkgpath": "github.com/ProtonMail/gluon/connector", "iface": "Connector", "type": "verifConnBase"}],
         "params": {"quick": grid(k=[1, 2]), "thorough": grid(k=[3])},
         "cover": ["mailboxes-updated", "flags-updated", "deleted"]},
        {"name": "queue", "pkg": "async", "pkgname": "async", "entry": "VerifC02Queue", "files": ["zz_verif_c02.go"], "goroutines": True, "replay_timeout_s": 40,
         "params": {"quick": grid(k=[2, 3], burst=[3]), "thorough": grid(k=[4], burst=[3]) + grid(k=[3], burst=[5])},
         "cover": ["queue-drained"]},
{"name": "wire", "pkg": "internal/session", "pkgname": "session", "entry": "VerifC01Wire", "files": ["zz_verif_c18.go", "zz_verif_c18b.go", "zz_verif_c01.go", "zz_verif_c01idle.go", "zz_verif_c01idle2.go", "zz_verif_c01wire.go"],
         "with": ["state_export", "backend_export", "verifdb"], "goroutines": True, "concrete_time": True, "replay_timeout_s": 90,
         "extra_overlay": {"internal/response/zz_verif_decode.go": "internal/response/zz_verif_decode.go"},
         "params": {"quick": grid(k=[1, 2]), "thorough": grid(k=[3])},
         "cover": ["wire-probed", "wire-fresh-compared"]},
        {"name": "wireconnector", "pkg": "internal/session", "pkgname": "session", "entry": "VerifC02WireConnector", "files": ["zz_verif_c18.go", "zz_verif_c18b.go", "zz_verif_c01.go", "zz_verif_c01idle.go", "zz_verif_c01idle2.go", "zz_verif_c01wire.go", "zz_verif_c02wire.go"],
         "with": ["state_export", "backend_export", "verifdb"], "goroutines": True, "concrete_time": True, "replay_timeout_s": 90,
         "extra_overlay": {"internal/response/zz_verif_decode.go": "internal/response/zz_verif_decode.go"},
         "params": {"quick": grid(k=[1, 2, 3]), "thorough": grid(k=[4, 5])},
         "cover": ["wire-fresh-compared"]},
        {"name": "session", "pkg": "internal/session", "pkgname": "session", "entry": "VerifC01Session", "files": ["zz_verif_c18.go", "zz_verif_c18b.go", "zz_verif_c01.go"],
         "with": ["state_export", "backend_export", "verifdb"],
         "extra_overlay": {"internal/response/zz_verif_decode.go": "internal/response/zz_verif_decode.go"},
         "params": {"quick": grid(k=[3]), "thorough": grid(k=[3])},
         "cover": ["own-store", "update-delivered"]},
    ],
    "stubs": ["internal/verifdb relational model", "state.Connector stub (no remote updates)", "state.UserInterface stub: FIFO, loss-free per-state update queue (async.QueuedChannel is goroutine based: outside)"],
    "outside": ["in the state / backend / session harnesses the goroutine-backed queue between writer and session is modelled as the FIFO, loss-free pipe it is specified to be (the native replay runs the real one); that contract itself is decided by the queue harness on async.QueuedChannel's real code under the cooperative goroutine model (other goroutines run to quiescence at every hand-over point - pre-emption inside a critical section is outside)", "histories longer than k events", "more than two sessions"],
    "assumptions": ["updates are delivered to a state in the order they were queued, none is lost"],
}

STATE_FILES = ["zz_verif_fixture.go", "zz_verif_world.go"]

CHECKS["C20"] = {
    "explanation": "Symbolic execution of Mailbox.Append / AppendRegular / actionCreateMessage / actionCreateRecoveredMessage (with rfc822 header handling, imap.NewParsedMessage, MessageHashesMap and GetMessageHash on concrete literals) under a symbolic connector failure schedule, and of the recovery-mailbox guards of State.{AppendOnlyMailbox,Create,Delete,Rename} and Mailbox.{Copy,Move} for every letter case of the name (one symbolic bit per letter).",
    "harnesses": [
        {"name": "append", "pkg": "internal/state", "pkgname": "state", "entry": "VerifC20Append",
         "files": ["zz_verif_c20.go", "zz_verif_c17.go"] + STATE_FILES, "with": ["verifdb"], "gen_stubs": [TX_STUB],
         "params": {"quick": grid(k=[2], faults=[0, 1, 2]), "thorough": grid(k=[3], faults=[0, 1, 2, 3])},
         "cover": ["append-ok"]},
        {"name": "cycle", "pkg": "internal/state", "pkgname": "state", "entry": "VerifC20Cycle",
         "files": ["zz_verif_c20.go", "zz_verif_c17.go"] + STATE_FILES, "with": ["verifdb"], "gen_stubs": [TX_STUB],
         "params": {"quick": grid(k=[2, 3], faults=[2], drafts=[0]) + grid(k=[2], faults=[2], drafts=[1]), "thorough": grid(k=[4], faults=[2, 3], drafts=[0]) + grid(k=[3], faults=[2], drafts=[1])},
         "cover": ["cycle-append-ok", "cycle-append-refused", "cycle-moved-out"]},
        {"name": "protected", "pkg": "internal/state", "pkgname": "state", "entry": "VerifC20Protected",
         "files": ["zz_verif_c20.go", "zz_verif_c17.go"] + STATE_FILES, "with": ["verifdb"], "gen_stubs": [TX_STUB],
         "params": {"quick": [{}], "thorough": [{}]}, "cover": []},
        {"name": "wire", "pkg": "internal/session", "pkgname": "session", "entry": "VerifC20Wire", "files": ["zz_verif_c18.go", "zz_verif_c18b.go", "zz_verif_c01.go", "zz_verif_c01idle.go", "zz_verif_c01idle2.go", "zz_verif_c01wire.go"],
         "with": ["state_export", "backend_export", "verifdb"], "goroutines": True, "concrete_time": True, "replay_timeout_s": 90,
         "extra_overlay": {"internal/response/zz_verif_decode.go": "internal/response/zz_verif_decode.go"},
         "params": {"quick": grid(g=[0, 1, 2]), "thorough": grid(g=[3])},
         "cover": ["recovered-fetched"]},
    ],
    "stubs": ["state.Connector stub: CreateMessage/AddMessagesToMailbox/... fail on a symbolic schedule (size error or other)", "store.Store stub (map)", "crypto/sha256 -> injective stub (collision freedom assumed)", "internal/verifdb relational model"],
    "outside": ["header normalisation inside GetMessageHash beyond the four concrete literals", "histories longer than k", "LSUB"],
    "assumptions": ["SHA-256 is collision free"],
}

CHECKS["C14"] = {
    "explanation": "Symbolic execution of listSuperiors/listInferiors on symbolic names (every name of bounded length over an alphabet containing the delimiter, both delimiters) and of State.{Create,Delete,Rename,Subscribe,Unsubscribe} (with actionCreateMailbox, actionUpdateMailbox, actionDeleteMailbox, renameInbox) on the relational model for symbolic command histories over a pool of well- and ill-formed names, compared after every command with the reference hierarchy model (DESIGN appendix A.5). VerifC14List / VerifC14Lsub: LIST over every subset of a name pool x references x 16 patterns, LSUB over every combination of {absent, subscribed, unsubscribed, deleted but still subscribed} x 8 patterns, compared with RFC 3501 wildcard matching over the names and their superiors (regexp on the concrete strings is delegated to the Go library). VerifC14Decode (internal/session): mailbox-name normalisation for the delimiters '/', '.', NIL.",
    "harnesses": [
        {"name": "paths", "pkg": "internal/state", "pkgname": "state", "entry": "VerifC14Paths",
         "files": ["zz_verif_c14.go", "zz_verif_c17.go"] + STATE_FILES, "with": ["verifdb"], "gen_stubs": [TX_STUB],
         "params": {"quick": grid(n=[0, 1, 2, 3, 4]), "thorough": grid(n=[0, 1, 2, 3, 4, 5, 6])}, "cover": []},
        {"name": "namespace", "pkg": "internal/state", "pkgname": "state", "entry": "VerifC14Namespace",
         "files": ["zz_verif_c14.go", "zz_verif_c17.go"] + STATE_FILES, "with": ["verifdb"], "gen_stubs": [TX_STUB],
         "params": {"quick": grid(k=[1, 2], holes=[0], lsub=[1]) + grid(k=[1], holes=[1], lsub=[1]), "thorough": grid(k=[3], holes=[0], lsub=[0]) + grid(k=[2], holes=[1], lsub=[1])}, "cover": []},
        {"name": "list", "pkg": "internal/state", "pkgname": "state", "entry": "VerifC14List",
         "files": ["zz_verif_c14.go", "zz_verif_c17.go"] + STATE_FILES, "with": ["verifdb"], "gen_stubs": [TX_STUB],
         "params": {"quick": [{}], "thorough": [{}]}, "cover": ["list-done"]},
        {"name": "connector", "pkg": "internal/backend", "pkgname": "backend", "entry": "VerifC06Apply", "files": ["zz_verif_backend.go"], "with": ["verifdb"],
         "gen_stubs": [{"pkgpath": "github.com/ProtonMail/gluon/connector", "iface": "Connector", "type": "verifConnBase"}],
         "params": {"quick": grid(faults=[0]), "thorough": grid(faults=[0, 1])}, "cover": ["apply-ok"]},
        {"name": "listdot", "pkg": "internal/state", "pkgname": "state", "entry": "VerifC14ListDot",
         "files": ["zz_verif_c14.go", "zz_verif_c17.go"] + STATE_FILES, "with": ["verifdb"], "gen_stubs": [TX_STUB],
         "params": {"quick": [{}], "thorough": [{}]}, "cover": ["list-dot-done"]},
        {"name": "lsub", "pkg": "internal/state", "pkgname": "state", "entry": "VerifC14Lsub",
         "files": ["zz_verif_c14.go", "zz_verif_c17.go"] + STATE_FILES, "with": ["verifdb"], "gen_stubs": [TX_STUB],
         "params": {"quick": [{}], "thorough": [{}]}, "cover": ["lsub-done"]},
        {"name": "decode", "pkg": "internal/session", "pkgname": "session", "entry": "VerifC14Decode", "files": ["zz_verif_c14.go"],
         "with": ["backend_export", "state_export", "verifdb"], "params": {"quick": [{}], "thorough": [{}]}, "cover": ["decoded"]},
        {"name": "wire", "pkg": "internal/session", "pkgname": "session", "entry": "VerifC14Wire", "files": ["zz_verif_c18.go", "zz_verif_c18b.go", "zz_verif_c01.go", "zz_verif_c01idle.go", "zz_verif_c01idle2.go", "zz_verif_c01wire.go", "zz_verif_c14wire.go"],
         "with": ["state_export", "backend_export", "verifdb"], "goroutines": True, "concrete_time": True, "replay_timeout_s": 90,
         "extra_overlay": {"internal/response/zz_verif_decode.go": "internal/response/zz_verif_decode.go"},
         "params": {"quick": grid(k=[2, 3]), "thorough": grid(k=[4])},
         "cover": ["namespace-accepted", "namespace-refused"]},
    ],
    "stubs": ["internal/verifdb relational model (UNIQUE name / remote id)", "state.Connector stub: CreateMailbox returns a fresh remote id"],
    "outside": ["the regexp engine itself (match() compiles the pattern to a regexp: on the concrete names and patterns of the list harness it is delegated to the Go library the engine is linked with)", "LSUB with a non-empty reference", "modified UTF-7 names beyond ASCII", "connector-side mailbox updates (see C06)"],
    "assumptions": [],
}

CHECKS["C15"] = {
    "explanation": "Symbolic execution of Mailbox.Search (sequential branch), buildSearchOp* for flag / keyword / size / UID-set / sequence-set / internal-date keys and NOT / OR / list / juxtaposition, applySearch, buildSearchData and interval resolution on a view with strictly ascending symbolic UIDs, symbolic sizes and dates and chosen flag sets; the result is compared message by message with a reference evaluator of the same symbolically chosen key tree. Set keys with two ranges whose four ends are symbolic (nested, overlapping, reversed) for UID and sequence sets. VerifC15Text: SUBJECT / FROM / TO / BODY / TEXT / HEADER (present and missing field, empty value) and BEFORE / ON / SINCE / SENTBEFORE / SENTON / SENTSINCE, each optionally under NOT, on two messages chosen from a pool of concrete literals (different header dates and zones, internal dates around midnight), needles from a pool (case variants, empty, absent): compared with case-insensitive substring matching and calendar-day comparison.",
    "harnesses": [
        {"name": "search", "pkg": "internal/state", "pkgname": "state", "entry": "VerifC15Search",
         "files": ["zz_verif_c15.go", "zz_verif_c17.go"] + STATE_FILES, "with": ["verifdb"], "gen_stubs": [TX_STUB],
         "params": {"quick": grid(n=[1, 2], depth=[0], sets=[0], comp=[0]) + grid(n=[2, 3], depth=[0], sets=[1], comp=[0]) + grid(n=[1], depth=[1], sets=[0], comp=[1]) + grid(n=[1, 2], depth=[2], nested=[1], comp=[2]) + grid(n=[1], depth=[0], sets=[0], comp=[0], recent=[1]),
                    "thorough": grid(n=[1, 2, 3], depth=[0], sets=[0], comp=[0]) + grid(n=[1], depth=[1], sets=[0], comp=[2]) + grid(n=[2, 3, 4], depth=[0], sets=[1], comp=[0]) + grid(n=[1, 2, 3], depth=[2], nested=[1], comp=[2]) + grid(n=[1, 2], depth=[0], sets=[0], comp=[0], recent=[1])},
         "cover": ["search-ok"]},
        {"name": "text", "pkg": "internal/state", "pkgname": "state", "entry": "VerifC15Text",
         "files": ["zz_verif_c15.go", "zz_verif_c17.go"] + STATE_FILES, "with": ["verifdb"], "gen_stubs": [TX_STUB],
         "params": {"quick": [{}], "thorough": [{}]}, "cover": ["text-search"]},
    ],
    "stubs": ["internal/verifdb relational model", "runtime.NumCPU -> 1 / parallelism disabled (sequential branch of parallel.DoContext)"],
    "outside": ["text keys beyond the concrete message / needle pools of the text harness (BCC, CC, encoded words, charset decoding)", "internal dates with a non-UTC zone (how SQLite returns them is C08)", "the parallel branch"],
    "assumptions": ["view UIDs strictly ascending and non-zero"],
}

C10_FILES = ["zz_verif_c10.go", "zz_verif_c10b.go", "zz_verif_c10c.go", "zz_verif_reader.go"]

CHECKS["C10"] = {
    "explanation": "The harnesses are printers: each builds the byte string of a command from an abstract command whose leaves are symbolic (tag bytes, letter case of every keyword character, each string argument in atom / quoted / literal encoding with symbolic payload bytes, digit strings, sequence sets, flag lists, fetch attributes with sections and partials, search-key trees, dates and date-times, optional short reads), feeds it through command.Parser.Parse (real go/ssa of imap/command and rfcparser) and compares the parsed command with the abstract one, field by field.  Families: string/mailbox commands (LOGIN, SELECT, EXAMINE, CREATE, DELETE, SUBSCRIBE, UNSUBSCRIBE, RENAME, COPY, MOVE, STATUS), FETCH, STORE, SEARCH, APPEND, LIST/LSUB/ID/UID EXPUNGE and the commands without arguments; UID prefixes.  The dimensions (letter case, tag, encodings, set numbers, chunking) are made symbolic one family at a time, not as one product.",
    "harnesses": [
        {"name": "strings", "pkg": "imap/command", "pkgname": "command", "entry": "VerifC10Strings", "files": C10_FILES,
         "params": {"quick": grid(cmd=[1], symcase=[1], symtag=[0], len=[1], chunked=[0]) + grid(cmd=[1], symcase=[0], symtag=[1], len=[1], chunked=[0]) + grid(cmd=[1], symcase=[0], symtag=[0], len=[1, 2, 3], chunked=[0]) + grid(cmd=[0], symcase=[0], symtag=[0], len=[1], chunked=[0]) + grid(cmd=[8], symcase=[0], symtag=[0], len=[1], chunked=[0], bigset=[0, 1]) + grid(cmd=[1], symcase=[0], symtag=[0], len=[2], chunked=[1]), "thorough": grid(cmd=list(range(11)), symcase=[1], symtag=[0, 1], len=[1], chunked=[0]) + grid(cmd=[0, 1, 7, 8, 10], symcase=[0], symtag=[0], len=[2, 3], chunked=[0, 1]) + grid(cmd=[1], symcase=[0], symtag=[0], len=[5], chunked=[0, 1]) + grid(cmd=[8, 9], symcase=[0], symtag=[0], len=[1], chunked=[0], bigset=[1])},
         "summarise": SCAN_SUMMARISE, "cover": []},
        {"name": "fetchlists", "pkg": "imap/command", "pkgname": "command", "entry": "VerifC10Fetch", "files": C10_FILES,
         "params": {"quick": grid(natt=[2], fam=[2], symcase=[0]), "thorough": grid(natt=[3], fam=[2], symcase=[0])},
         "summarise": SCAN_SUMMARISE, "cover": []},
        {"name": "fetch", "pkg": "imap/command", "pkgname": "command", "entry": "VerifC10Fetch", "files": C10_FILES,
         "params": {"quick": grid(natt=[0, 1], fam=[0], symcase=[1]) + grid(natt=[1], fam=[1], flen=[0], symcase=[1]), "thorough": grid(natt=[0, 1], fam=[0], symcase=[1], symset=[0, 1]) + grid(natt=[1], fam=[1], flen=[0, 1, 2], symcase=[0, 1])},
         "summarise": SCAN_SUMMARISE, "cover": []},
        {"name": "store", "pkg": "imap/command", "pkgname": "command", "entry": "VerifC10Store", "files": C10_FILES,
         "params": {"quick": grid(nflags=[0, 1], symcase=[1]) + grid(nflags=[2], symcase=[0]), "thorough": grid(nflags=[0, 1, 2], symcase=[1], symset=[0, 1]) + grid(nflags=[3], symcase=[0])},
         "summarise": SCAN_SUMMARISE, "cover": []},
        {"name": "search", "pkg": "imap/command", "pkgname": "command", "entry": "VerifC10Search", "files": C10_FILES,
         "params": {"quick": grid(fam=[0], depth=[0], nkeys=[0], symcase=[1]) + grid(fam=[1], slen=[0], symcase=[0]) + grid(fam=[2], symcase=[0]),
                    "thorough": grid(fam=[0], depth=[1], nkeys=[0, 1], symcase=[0, 1]) + grid(fam=[1], slen=[0, 1, 2], symcase=[0, 1], nkeys=[0, 1]) + grid(fam=[2], symcase=[1], nkeys=[0, 1])},
         "summarise": SCAN_SUMMARISE, "cover": []},
        {"name": "append", "pkg": "imap/command", "pkgname": "command", "entry": "VerifC10Append", "files": C10_FILES,
         "params": {"quick": grid(fam=[0, 1], litlen=[0], symcase=[0]) + grid(fam=[1], litlen=[3], symcase=[1], chunked=[1]), "thorough": grid(fam=[0, 1, 2], litlen=[0, 1, 2, 4], symcase=[0, 1], chunked=[0, 1])},
         "summarise": SCAN_SUMMARISE, "cover": []},
        {"name": "misc", "pkg": "imap/command", "pkgname": "command", "entry": "VerifC10Misc", "files": C10_FILES,
         "params": {"quick": grid(symcase=[1]), "thorough": grid(symcase=[1], symtag=[0, 1], bigset=[0, 1])},
         "summarise": SCAN_SUMMARISE, "cover": []},
        {"name": "wirechunks", "pkg": "internal/session", "pkgname": "session", "entry": "VerifC10WireChunks", "files": ["zz_verif_c18.go", "zz_verif_c18b.go", "zz_verif_c10wire.go"],
         "with": ["state_export", "backend_export", "verifdb"], "goroutines": True, "concrete_time": True, "replay_timeout_s": 90,
         "params": {"quick": grid(cuts=[1]), "thorough": grid(cuts=[2])}, "time_limit_s": {"thorough": 2400}, "cover": ["chunked-run"]},
    ],
    "stubs": ["rfcparser.Reader -> fixed buffer, optional symbolic short reads", "time.Date with symbolic fields -> injective packing of the fields and zone offset"],
    "outside": ["bufio.Reader between socket and scanner", "string payloads longer than the bound", "numbers beyond 32 bits (C16)", "atoms containing '[' and empty literals ({0}), which the server's grammar subset does not accept", "the full product of all symbolic dimensions (each family fixes the dimensions it does not vary)", "calendar arithmetic inside time.Date (injective packing stub: the parser must pass the written fields)", "IDLE continuation / DONE, AUTHENTICATE (not registered)"],
    "assumptions": ["commands are generated from the RFC 3501/4315/6851/2971 grammar restricted to what command.NewParser registers"],
}

CHECKS["C04"] = {
    "explanation": "Inductive step of imap.EpochUIDValidityGenerator.Generate through its real go/ssa: the generator state (last value) and the clock are symbolic; on success the result is strictly greater than the last value and becomes the new state, on error the state is unchanged - by induction over calls every value exceeds all earlier ones.  Plus IncrementalUIDValidityGenerator and UID.Add.  (The view-level half - snapMsgList.insert rejects non-increasing UIDs and sequence order = UID order - is decided by the C01 probe obligations.)",
    "harnesses": [
        {"name": "generator", "pkg": "imap", "pkgname": "imap", "entry": "VerifC04Generator", "files": ["zz_verif_c04.go"],
         "params": {"quick": grid(gap=[3]), "thorough": grid(gap=[8])}, "cover": ["generator-ok", "generator-error"], "max_sym_loop": 32},
        {"name": "generator-anygap", "pkg": "imap", "pkgname": "imap", "entry": "VerifC04Generator", "files": ["zz_verif_c04.go"],
         "params": {"quick": grid(gap=[-1]), "thorough": grid(gap=[-1])}, "cover": ["generator-ok", "generator-error"], "max_sym_loop": 6, "sym_loop_cut": True},
        {"name": "incremental", "pkg": "imap", "pkgname": "imap", "entry": "VerifC04Incremental", "files": ["zz_verif_c04.go"],
         "params": {"quick": [{}], "thorough": [{}]}, "cover": []},
        {"name": "recreate", "pkg": "internal/state", "pkgname": "state", "entry": "VerifC04Recreate",
         "files": ["zz_verif_c04.go", "zz_verif_c17.go", "zz_verif_fixture.go", "zz_verif_world.go"], "with": ["verifdb"], "gen_stubs": [TX_STUB],
         "extra_overlay": {"internal/response/zz_verif_decode.go": "internal/response/zz_verif_decode.go"},
         "params": {"quick": grid(fam=[0], k=[3, 4]) + grid(fam=[1], k=[5]), "thorough": grid(fam=[0], k=[5, 6]) + grid(fam=[1], k=[6, 7])}, "cover": ["name-recreated"]},
        {"name": "history", "pkg": "internal/state", "pkgname": "state", "entry": "VerifC04History",
         "files": ["zz_verif_c04.go", "zz_verif_c17.go", "zz_verif_fixture.go", "zz_verif_world.go"], "with": ["verifdb"], "gen_stubs": [TX_STUB],
         "extra_overlay": {"internal/response/zz_verif_decode.go": "internal/response/zz_verif_decode.go"},
         "params": {"quick": grid(k=[2], nA=[2], nB=[1], faults=[1]), "thorough": grid(k=[2], nA=[3], nB=[2], faults=[2]) + grid(k=[3], nA=[1], nB=[1], faults=[0])},
         "cover": ["append-ok", "copyuid-checked", "expunged-highest"]},
    ],
    "stubs": ["time.Now -> symbolic instant 1970..2255, monotone", "sync/atomic -> plain accesses (single goroutine)", "Time.Sub / Duration.Seconds -> whole seconds, no overflow within the clock bounds"],
    "outside": ["UID allocation itself (SQLite AUTOINCREMENT; the relational stub models it, the engine cannot encode SQLite)", "restarts", "the CAS loop under real concurrency", "catch-up gaps larger than the bound"],
    "assumptions": ["lastUID - seconds since epoch <= gap (loop bound, checked by the engine's loop-unwinding limit)"],
}

BACKEND_WITH = ["verifdb"]

CHECKS["C06"] = {
    "explanation": "Symbolic execution of backend user.apply and every apply* / setMessageMailboxes / setMessageFlags / userDBWrite (real go/ssa) on a directly constructed user with the relational model and a store stub: symbolic update kind (all 11), target object (known / unknown / protected recovery object) and database/store fault schedule; obligations: acknowledged exactly once with the returned error, no panic, failed update leaves the index unchanged, every listed message keeps its bytes, duplicate delivery changes nothing. VerifC06Sequence: two watching sessions, message updates of five kinds (mixed batches, mailboxes+flags, flags, deleted, message-ID changed) against a reference model: valid updates succeed with exactly the described change; restating updates and re-deliveries are unobservable (index snapshot equal, no EXISTS/EXPUNGE/FETCH from any session).",
    "harnesses": [
        {"name": "apply", "pkg": "internal/backend", "pkgname": "backend", "entry": "VerifC06Apply", "files": ["zz_verif_backend.go"], "with": BACKEND_WITH,
         "gen_stubs": [{"pkgpath": "github.com/ProtonMail/gluon/connector", "iface": "Connector", "type": "verifConnBase"}],
         "params": {"quick": grid(faults=[0, 1]), "thorough": grid(faults=[0, 1, 2])},
         "cover": ["apply-ok", "apply-error", "replay-ok"]},
        {"name": "sequence", "pkg": "internal/backend", "pkgname": "backend", "entry": "VerifC06Sequence", "files": ["zz_verif_backend.go", "zz_verif_c02.go", "zz_verif_c06b.go"],
         "with": ["verifdb", "state_export"],
         "gen_stubs": [{"pkgpath": "github.com/ProtonMail/gluon/connector", "iface": "Connector", "type": "verifConnBase"}],
         "params": {"quick": grid(k=[1]), "thorough": grid(k=[2])},
         "cover": ["seq-created", "seq-mailboxes", "seq-flags", "seq-deleted", "seq-id-changed", "seq-redelivered"]},
        {"name": "wire", "pkg": "internal/session", "pkgname": "session", "entry": "VerifC06Wire", "files": ["zz_verif_c18.go", "zz_verif_c18b.go", "zz_verif_c01.go", "zz_verif_c01idle.go", "zz_verif_c01idle2.go", "zz_verif_c01wire.go", "zz_verif_c06wire.go"],
         "with": ["state_export", "backend_export", "verifdb"], "goroutines": True, "concrete_time": True, "replay_timeout_s": 90,
         "extra_overlay": {"internal/response/zz_verif_decode.go": "internal/response/zz_verif_decode.go"},
         "params": {"quick": [{}], "thorough": [{}]},
         "cover": ["redelivered"]},
    ],
    "stubs": ["internal/verifdb relational model with symbolic failures per operation", "store.Store stub with symbolic failures", "runtime.NumCPU -> 1 (sequential branch of parallel.DoContext)", "no session states attached (queueStateUpdate has no receivers)"],
    "outside": ["the update goroutine / channel plumbing (updateInjector, newUser loop)", "the responses sessions would emit for the queued state updates (decided separately by C02 for the same update types)"],
    "assumptions": [],
}

CHECKS["C07"] = {
    "explanation": "Effect-ordering protocol around the message store and the index transaction, with failing steps and crash points as symbolic variables: connector-driven message creation / update / deletion (user.apply -> applyMessagesCreated / applyMessageUpdated / applyMessageDeleted) run against stubs that log every externally visible effect (store write/delete, commit); for every prefix of that log the start-up procedure (user.deleteAllMessagesMarkedDeleted, user.cleanupStaleStoreData - executed symbolically on the post-crash state) must leave every listed message fetchable, no cache file without a row and no message marked deleted. The store stub can fail after consuming its input (truncated file as a logged effect) and cached bytes of listed messages must be complete literals; VerifC07GetLiteral decides State.getLiteral for good / missing / unreadable cache files x recovered or not x connector failing or not; the commands harness (VerifC20Cycle) asserts after every APPEND / MOVE / COPY step under connector faults that every listed message keeps its bytes or a remote id.",
    "harnesses": [
        {"name": "crash", "pkg": "internal/backend", "pkgname": "backend", "entry": "VerifC07Crash", "files": ["zz_verif_backend.go"], "with": BACKEND_WITH,
         "gen_stubs": [{"pkgpath": "github.com/ProtonMail/gluon/connector", "iface": "Connector", "type": "verifConnBase"}],
         "params": {"quick": grid(faults=[0, 1]), "thorough": grid(faults=[0, 1, 2])},
         "cover": ["op-ok", "crash-point"]},
        {"name": "cmdcrash", "pkg": "internal/backend", "pkgname": "backend", "entry": "VerifC07Commands", "files": ["zz_verif_backend.go", "zz_verif_c07b.go"], "with": BACKEND_WITH,
         "gen_stubs": [{"pkgpath": "github.com/ProtonMail/gluon/connector", "iface": "Connector", "type": "verifConnBase"}],
         "params": {"quick": grid(faults=[0, 1]), "thorough": grid(faults=[0, 1, 2])},
         "cover": ["command-ok", "crash-point"]},
        {"name": "wraptx", "pkg": "internal/db_impl/sqlite3", "pkgname": "sqlite3", "entry": "VerifC07WrapTx", "files": ["zz_verif_c07.go"],
         "params": {"quick": [{}], "thorough": [{}]}, "cover": ["op-ok", "op-error", "op-panic"], "replay_timeout_s": 60},
        {"name": "getliteral", "pkg": "internal/state", "pkgname": "state", "entry": "VerifC07GetLiteral",
         "files": ["zz_verif_c20.go", "zz_verif_c17.go"] + STATE_FILES, "with": ["verifdb"], "gen_stubs": [TX_STUB],
         "params": {"quick": [{}], "thorough": [{}]}, "cover": ["literal-served", "literal-failed"]},
        {"name": "commands", "pkg": "internal/state", "pkgname": "state", "entry": "VerifC20Cycle",
         "files": ["zz_verif_c20.go", "zz_verif_c17.go"] + STATE_FILES, "with": ["verifdb"], "gen_stubs": [TX_STUB],
         "params": {"quick": grid(k=[2, 3], faults=[2]), "thorough": grid(k=[4], faults=[2, 3])},
         "cover": ["cycle-append-refused", "cycle-moved-out"]},
    ],
    "stubs": ["internal/verifdb: Write is atomic and durable at commit, rolled back on error (contract of sqlite3 wrapTx - SQLite itself is outside)", "store.Store stub: each Set/Delete is atomic and durable in order"],
    "outside": ["durability itself (SQLite WAL, fsync, the file system)", "process kill inside a store write (torn file: C09)", "mailbox create/delete/rename and client commands (APPEND ordering is decided under C20's harness obligations 'stored bytes present when OK')"],
    "assumptions": ["each logged effect is atomic and durable in order; a failed transaction function leaves no trace"],
}

CHECKS["C18"] = {
    "explanation": "Exhaustive dispatch matrix decided through the real go/ssa of Session.handleCommand / handle{Any,NotAuthenticated,Authenticated,Selected}Command and State.Selected for every payload type in the protocol states 'no state' and 'state without selected mailbox' (any access to backend, database or connector would be a stub-missing / nil dereference failure), plus Backend.getUserID as a state-machine step from a symbolic failure count with a stub connector: wrong credentials never authenticate, success resets the counter, the third consecutive failure enters the jail and the next attempt blocks.",
    "harnesses": [
        {"name": "dispatch", "pkg": "internal/session", "pkgname": "session", "entry": "VerifC18Dispatch", "files": ["zz_verif_c18.go"], "with": ["state_export"],
         "params": {"quick": [{}], "thorough": [{}]}, "cover": ["refused-not-authenticated", "refused-not-selected", "login-twice"]},
        {"name": "jail", "pkg": "internal/backend", "pkgname": "backend", "entry": "VerifC18Jail", "files": ["zz_verif_backend.go"], "with": BACKEND_WITH,
         "gen_stubs": [{"pkgpath": "github.com/ProtonMail/gluon/connector", "iface": "Connector", "type": "verifConnBase"}],
         "params": {"quick": grid(k=[3, 4]), "thorough": grid(k=[5, 6])}, "cover": ["login-ok", "jail-entered", "failure-counted"]},
        {"name": "login", "pkg": "internal/session", "pkgname": "session", "entry": "VerifC18Login", "files": ["zz_verif_c18.go", "zz_verif_c18b.go"],
         "with": ["state_export", "backend_export", "verifdb"],
         "params": {"quick": [{}], "thorough": [{}]}, "cover": ["login-refused", "login-accepted"]},
        {"name": "afterclose", "pkg": "internal/session", "pkgname": "session", "entry": "VerifC18AfterClose", "files": ["zz_verif_c18.go", "zz_verif_c18b.go"],
         "with": ["state_export", "backend_export", "verifdb"],
         "params": {"quick": [{}], "thorough": [{}]}, "cover": ["after-close"]},
        {"name": "dbpath", "pkg": "internal/db_impl/sqlite3", "pkgname": "sqlite3", "entry": "VerifC18DBPath", "files": ["zz_verif_c18.go"],
         "params": {"quick": grid(n=[1, 2]), "thorough": grid(n=[3])}, "cover": ["uri-parsed"]},
        {"name": "wirelines", "pkg": "internal/session", "pkgname": "session", "entry": "VerifC11WireLines", "files": ["zz_verif_c18.go", "zz_verif_c18b.go", "zz_verif_c11wire.go"],
         "with": ["state_export", "backend_export", "verifdb"], "goroutines": True, "concrete_time": True, "replay_timeout_s": 60,
         "params": {"quick": grid(m=[1, 2, 3]), "thorough": grid(m=[4, 5])},
         "cover": ["lines-served"]},
        {"name": "wireisolation", "pkg": "internal/session", "pkgname": "session", "entry": "VerifC18WireIsolation", "files": ["zz_verif_c18.go", "zz_verif_c18b.go", "zz_verif_c01.go", "zz_verif_c01idle.go", "zz_verif_c01idle2.go", "zz_verif_c01wire.go", "zz_verif_c18wire.go"],
         "with": ["state_export", "backend_export", "verifdb"], "goroutines": True, "concrete_time": True, "replay_timeout_s": 90,
         "extra_overlay": {"internal/response/zz_verif_decode.go": "internal/response/zz_verif_decode.go"},
         "params": {"quick": grid(k=[1, 2]), "thorough": grid(k=[3, 4])},
         "cover": ["alice-acted"]},
    ],
    "stubs": ["connector.Connector stub (Authorize returns a chosen answer)", "time.AfterFunc -> recorded, never fired", "sync.WaitGroup / Mutex -> single-goroutine model (Wait on a non-zero group = BLOCKED)", "profiling / observability / reporter / logrus -> no-op"],
    "outside": ["'each user has its own database, store and connector' is object wiring, not a computation (the login harness checks that the session is bound to the matching user's object)", "real time (that the jail lasts exactly loginJailTime)", "non-ASCII credential bytes"],
    "assumptions": [],
}


# Cross-solver check: the arithmetic kernels (full-width bit-vector reasoning, where a solver bug would matter most)
# are decided a second time by a solver from a different code base (z3 4.8.12 next to the default cvc5 1.0).
# Not for C16's digit strings: z3 4.8.12 answers unknown on the 20-digit Horner chains within the 60 s limit (measured).
def _z3_twins():
    for prop, names in (("C17", ["limits"]), ("C13", ["partial"]), ("C04", ["generator", "incremental"])):
        hs = CHECKS[prop]["harnesses"]
        for h in list(hs):
            if h["name"] in names:
                twin = dict(h)
                twin["name"] = h["name"] + "-z3"
                twin["solver"] = "z3"
                hs.append(twin)


_z3_twins()


# ---- explanations / outside lists for the harnesses added with the cooperative goroutine model and the wire harnesses ----
GOR = " (cooperative goroutine model: control changes hands only at blocking operations and every other goroutine then runs to quiescence; pre-emptive interleavings are outside)"
CHECKS["C01"]["explanation"] += " VerifC01Idle: the real Session.handleIdle with its sender goroutine, State.Idle / PushResponder and the real async.QueuedChannel while the other session acts; the mirror is fed from the wire lines. VerifC01Wire: two clients on the wire, each served by the real Session.serve loop (command reader goroutine, parser, handlers, response rendering); the observer's client probes with FETCH 1:* (UID FLAGS) on the wire after every command" + GOR + "."
CHECKS["C01"]["outside"] = [o for o in CHECKS["C01"]["outside"] if not o.startswith("the goroutine hand-over")] + ["pre-emptive schedules of the IDLE / serve goroutines (cooperative goroutine model)"]
CHECKS["C02"]["explanation"] += " VerifC02Queue: async.QueuedChannel from its real code with its consumer goroutine: FIFO, loss-free, no duplicates, no dead-lock, consumer ends after Close + drain; connector-realqueue: the connector harness with that real queue in the loop; wire: the two-client wire harness, ending with a fresh EXAMINE client whose FETCH 1:* (UID FLAGS) must equal the observer's after NOOP" + GOR + "."
CHECKS["C05"]["explanation"] += " wire: on the wire no EXPUNGE line is written while a FETCH or STORE is answered and the tagged OK says [EXPUNGEISSUED] when a removal is held back."
CHECKS["C05"]["outside"] = [o for o in CHECKS["C05"]["outside"] if "EXPUNGEISSUED" not in o] + ["pre-emptive schedules (cooperative goroutine model)"]
CHECKS["C04"]["explanation"] += " VerifC04History: histories of APPEND / COPY / MOVE (also onto the same mailbox) / EXPUNGE of the highest UID with connector failures on the relational model: a UID denotes one message for ever, new UIDs exceed every UID ever assigned, UIDNEXT exceeds them and never decreases, APPENDUID / COPYUID pairs (read as RFC 4315 prescribes) name the rows the messages are found under. VerifC04Recreate family 1: two sessions issuing CREATE / DELETE on one name."
CHECKS["C07"]["explanation"] += " VerifC07Commands (cmdcrash): one client command (APPEND, COPY, MOVE, EXPUNGE, CREATE, DELETE, RENAME) through the real state layer on a backend user with failing database operations, failing commits, store and connector calls and a crash after any prefix of the durable effects: start-up leaves every listed message fetchable, no left-overs, every mailbox as before or as after the command. VerifC07WrapTx: the transaction protocol of Client.Write / wrapTx (commit exactly once on nil; rollback and no commit on error or panic; lock released), with (*sql.DB).BeginTx / (*sql.Tx).Commit / Rollback as counting intrinsics and a counting database/sql driver for the native replay."
CHECKS["C07"]["outside"] = [o for o in CHECKS["C07"]["outside"] if not o.startswith("mailbox create/delete/rename and client commands")] + ["that SQLite honours COMMIT / ROLLBACK"]
CHECKS["C11"]["explanation"] += " VerifC11Wire / VerifC11WireLines: the whole session loop on the wire (Session.serve, command reader goroutine, bufio, input collector, parser recovery, error counter, handler goroutine, LOGOUT) on a scripted connection: after an arbitrary line of n bytes the next command is still served; every line of a script is answered by exactly one completion result with its tag, in order" + GOR + "."
CHECKS["C11"]["outside"] = [o for o in CHECKS["C11"]["outside"] if not o.startswith("the 20-errors")] + ["the 20-errors disconnect (scripts are shorter)", "literal announcements inside the arbitrary line of the wire harness"]
CHECKS["C13"]["explanation"] += " VerifC13Wire: APPEND with a synchronising literal and FETCH of RFC822.SIZE / BODY[] / HEADER / TEXT / a partial on the wire through the real session loop, read as a client reads literals ({n} then n bytes)."
CHECKS["C13"]["outside"] = [o for o in CHECKS["C13"]["outside"] if not o.startswith("the {n} framing")]
CHECKS["C18"]["explanation"] = CHECKS["C18"].get("explanation", "") + " VerifC18DBPath: the SQLite URI getDatabaseConn builds from a user's path, read as SQLite reads it, names exactly that path (different users never share a database file). wirelines: gating by LOGIN / SELECT judged on the wire through the real session loop."

CHECKS["C20"]["explanation"] += " VerifC20Wire: on the wire through the real session loop: an APPEND the remote side refuses is answered NO, the recovery mailbox is listed, selectable, holds one message whose BODY[] ends with exactly the appended bytes; an accepted APPEND of the same bytes is answered OK and found in the mailbox."

CHECKS["C10"]["explanation"] += " VerifC10WireChunks: a fixed conversation (LOGIN with synchronising literals, SELECT, UID FETCH with a header-field list, STORE with a flag list, LOGOUT) delivered through the real net.Conn -> bufio -> input collector -> scanner -> parser -> session loop stack with one [two] cuts at arbitrary positions: the session writes exactly what it writes when all bytes arrive at once."

CHECKS["C02"]["explanation"] += " VerifC02WireConnector: a client on the wire has INBOX selected while the connector delivers MessagesCreated / MessageFlagsUpdated / MessagesDeleted through the real backend appliers and the real update queue; mirror, wire probe and fresh-session comparison as in the two-client harness."

CHECKS["C17"]["explanation"] += " VerifC17Wire: on the wire through the real session loop with at most 4 mailboxes and 3 messages per mailbox: histories of CREATE (also with a missing superior) / APPEND / COPY: after OK every listed mailbox holds at most 3 messages (STATUS) and at most 3 mailboxes are listed; a command answered NO changed neither the list nor any count."

CHECKS["C18"]["explanation"] += " VerifC18WireIsolation: two users with a client each on the wire: whatever alice does to her account (CREATE, APPEND, STORE, EXPUNGE, COPY, RENAME), everything bob's client can see (LIST, STATUS, UID FETCH of his INBOX) stays what it was and bob cannot open what alice created."

CHECKS["C06"]["explanation"] = CHECKS["C06"].get("explanation", "") + " VerifC06Wire: a connector update (message created / flags updated / deleted / mailboxes+flags updated) delivered twice through the real backend appliers, seen by a client on the wire: the first delivery is announced as described at the next NOOP, the re-delivery is acknowledged without error, makes the session send no EXISTS / EXPUNGE / FETCH and leaves UID FETCH 1:* (UID FLAGS) unchanged."

CHECKS["C14"]["explanation"] = CHECKS["C14"].get("explanation", "") + " VerifC14Wire: the namespace as a client sees it on the wire through the real session loop: histories of CREATE / DELETE / RENAME over a pool of names against the reference hierarchy: each command answered OK or NO as the model says, LIST shows exactly INBOX, the existing names and their superiors."
