package state

import (
	"context"

	"github.com/ProtonMail/gluon/imap"
	"github.com/ProtonMail/gluon/imap/command"
	"github.com/ProtonMail/gluon/internal/response"
	"github.com/ProtonMail/gluon/internal/verifdb"
	"github.com/ProtonMail/gluon/limits"
)

// VerifC04Recreate: histories of CREATE / DELETE / RENAME (also of INBOX, which creates a new mailbox) over two names:
// every mailbox object that comes into existence under a name gets a UIDVALIDITY strictly above every value that
// name ever had.  (The generator's monotonicity is VerifC04Generator's subject: here it counts up from 100.)
func VerifC04Recreate() {
	k := vsymParam("k")
	w := verifNewWorld(limits.DefaultLimits())
	inbox := w.db.AddBox("INBOX", "mb-inbox", 2)
	w.addMessage(inbox, 1)
	w.user.uidValSeq = 100
	// fam 1: two sessions of the user act on one name that exists from the start, CREATE / DELETE only (a value one
	// session drew for a command that failed must not surface later); fam 0: one session, two names, all four commands
	fam := vsymParam("fam")
	sts := []*State{w.newState(1), w.newState(2)}
	if fam == 1 {
		w.db.AddBox("a", "mb-a0", 50)
	}
	seenBox := map[imap.InternalMailboxID]bool{}
	maxUIDV := map[string]imap.UID{}
	for _, b := range w.db.Boxes {
		seenBox[b.ID] = true
		maxUIDV[b.Name] = b.UIDValidity
	}
	names := []string{"a", "b"}
	for step := 0; step < k; step++ {
		n, st, nops := names[0], sts[0], 4
		if fam == 1 {
			st, nops = sts[vsymChoice("session", 2)], 2
		} else {
			n = names[vsymChoice("name", 2)]
		}
		ctx := ctxFor(st)
		switch vsymChoice("op", nops) {
		case 0:
			_ = st.Create(ctx, n)
		case 1:
			_, _ = st.Delete(ctx, n)
		case 2:
			_ = st.Rename(ctx, "INBOX", n)
		case 3:
			_ = st.Rename(ctx, n, names[vsymChoice("to", 2)])
		}
		for _, b := range w.db.Boxes {
			if !seenBox[b.ID] {
				seenBox[b.ID] = true
				if prev, had := maxUIDV[b.Name]; had {
					vsymCover("name-recreated")
					vsymAssert(b.UIDValidity > prev, "a re-created mailbox name gets a UIDVALIDITY above every earlier value of that name")
				}
			}
			if b.UIDValidity > maxUIDV[b.Name] {
				maxUIDV[b.Name] = b.UIDValidity
			}
		}
	}
}

// ---- UID histories ----

type c4Ghost struct {
	ever    map[imap.UID]imap.InternalMessageID // every UID the mailbox ever showed, with the message it denoted
	maxEver imap.UID
	next    imap.UID // last UIDNEXT reported
}

func c4NewGhost(b *verifdb.Box) *c4Ghost {
	g := &c4Ghost{ever: map[imap.UID]imap.InternalMessageID{}, maxEver: b.LastUID}
	for _, r := range b.Rows {
		g.ever[r.UID] = r.Msg
	}
	return g
}

// observe compares the mailbox with everything it ever showed: a UID keeps denoting the same message, a UID not
// seen before is above every UID ever assigned (also the expunged ones), rows ascend.
func (g *c4Ghost) observe(b *verifdb.Box, name string) {
	prev := imap.UID(0)
	newMax := g.maxEver
	for _, r := range b.Rows {
		vsymAssert(r.UID > prev, "UIDs strictly ascending in mailbox "+name)
		prev = r.UID
		if owner, seen := g.ever[r.UID]; seen {
			vsymAssert(owner == r.Msg, "a UID denotes the same message for ever in mailbox "+name)
		} else {
			vsymAssert(r.UID > g.maxEver, "a newly assigned UID is above every UID ever assigned in mailbox "+name)
			g.ever[r.UID] = r.Msg
			if r.UID > newMax {
				newMax = r.UID
			}
		}
	}
	g.maxEver = newMax
}

func (g *c4Ghost) uidNext(ctx context.Context, m *Mailbox, name string) {
	next, err := m.UIDNext(ctx)
	if err != nil {
		return
	}
	vsymAssert(next > g.maxEver, "UIDNEXT is above every UID ever assigned in mailbox "+name)
	vsymAssert(next >= g.next, "UIDNEXT never decreases in mailbox "+name)
	g.next = next
}

func c4RowByUID(b *verifdb.Box, uid imap.UID) (imap.InternalMessageID, bool) {
	for _, r := range b.Rows {
		if r.UID == uid {
			return r.Msg, true
		}
	}
	return imap.InternalMessageID{}, false
}

// c4Set: "x", "1:*" or "x,y" (x != y, written in either order) over a view of n messages
func c4Set(n int) ([]command.SeqRange, int) {
	switch vsymChoice("set", 3) {
	case 1:
		return []command.SeqRange{{Begin: 1, End: 0}}, n
	case 2:
		if n < 2 {
			vsymAssume(false)
		}
		x := 1 + vsymChoice("x", n)
		y := 1 + vsymChoice("y", n)
		if x == y {
			vsymAssume(false)
		}
		return []command.SeqRange{{Begin: command.SeqNum(x), End: command.SeqNum(x)}, {Begin: command.SeqNum(y), End: command.SeqNum(y)}}, 2
	}
	x := 1 + vsymChoice("x", n)
	return []command.SeqRange{{Begin: command.SeqNum(x), End: command.SeqNum(x)}}, 1
}

// c4CheckCopyUID: what a client concludes from [COPYUID v src dst] (RFC 4315: n-th source UID -> n-th destination
// UID) must be where the messages are found.
func c4CheckCopyUID(item response.Item, want int, srcBefore map[imap.UID]imap.InternalMessageID, dst *verifdb.Box, dstBefore map[imap.UID]imap.InternalMessageID) {
	v, src, dstUIDs, ok := response.VerifDecodeCopyUID(item)
	vsymAssert(ok, "a COPY/MOVE that copied messages announces COPYUID")
	if !ok {
		return
	}
	vsymCover("copyuid-checked")
	vsymAssert(v == dst.UIDValidity, "COPYUID carries the destination's UIDVALIDITY")
	vsymAssert(len(src) == want && len(dstUIDs) == want, "COPYUID lists as many source and destination UIDs as messages were copied")
	if len(src) != len(dstUIDs) {
		return
	}
	for i := range src {
		msg, had := srcBefore[src[i]]
		vsymAssert(had, "a COPYUID source UID names a message of the source mailbox")
		found, is := c4RowByUID(dst, dstUIDs[i])
		vsymAssert(is, "a COPYUID destination UID names a message of the destination mailbox")
		if had && is {
			vsymAssert(found == msg, "the message announced under a COPYUID destination UID is the one found under it")
		}
		_, old := dstBefore[dstUIDs[i]]
		vsymAssert(!old, "a COPYUID destination UID was not in use before the command")
	}
}

func c4Snapshot(b *verifdb.Box) map[imap.UID]imap.InternalMessageID {
	out := map[imap.UID]imap.InternalMessageID{}
	for _, r := range b.Rows {
		out[r.UID] = r.Msg
	}
	return out
}

// VerifC04History: histories of APPEND / COPY / MOVE (between two mailboxes and onto the same mailbox) / EXPUNGE of
// the highest UID, some of them failing remotely, on the relational model (which assigns UIDs like AUTOINCREMENT:
// one above the highest ever assigned).  After every command: a UID keeps denoting one message, new UIDs are above
// everything ever assigned, UIDNEXT is above them and never decreases, APPENDUID / COPYUID name the UIDs the
// messages are found under.
func VerifC04History() {
	k := vsymParam("k")
	nA := vsymParam("nA")
	nB := vsymParam("nB")
	w := verifNewWorld(limits.DefaultLimits())
	w.conn.faultBudget = vsymParam("faults")
	a := w.db.AddBox("A", "mb-A", 2)
	b := w.db.AddBox("B", "mb-B", 3)
	for i := 0; i < nA; i++ {
		w.addMessage(a, imap.UID(i+1))
	}
	for i := 0; i < nB; i++ {
		w.addMessage(b, imap.UID(i+1))
	}
	// B's highest UIDs may have been expunged before the history starts
	b.LastUID = imap.UID(nB + vsymChoice("aheadB", 3))
	sa := w.newState(1)
	sb := w.newState(2)
	var mboxA, mboxB *Mailbox
	if err := sa.Select(ctxFor(sa), "A", func(m *Mailbox) error { mboxA = m; return nil }); err != nil {
		panic(err)
	}
	if err := sb.Select(ctxFor(sb), "B", func(m *Mailbox) error { mboxB = m; return nil }); err != nil {
		panic(err)
	}
	ga, gb := c4NewGhost(a), c4NewGhost(b)
	ga.uidNext(ctxFor(sa), mboxA, "A")
	gb.uidNext(ctxFor(sb), mboxB, "B")
	for step := 0; step < k; step++ {
		// both sessions are up to date before a command (stale views are C03's subject)
		w.deliverAll(0)
		w.deliverAll(1)
		if _, err := sa.flushResponses(ctxFor(sa), true); err != nil {
			panic(err)
		}
		if _, err := sb.flushResponses(ctxFor(sb), true); err != nil {
			panic(err)
		}
		beforeA, beforeB := c4Snapshot(a), c4Snapshot(b)
		viewA, viewB := len(sa.snap.messages.msg), len(sb.snap.messages.msg)
		switch vsymChoice("ev", 6) {
		case 0: // APPEND into B by the session that has A selected
			var uid imap.UID
			err := sa.AppendOnlyMailbox(ctxFor(sa), "B", func(m AppendOnlyMailbox, sel bool) error {
				var e error
				uid, e = m.Append(ctxFor(sa), []byte(verifLiteral), imap.NewFlagSet(), time0())
				return e
			})
			if err == nil {
				vsymCover("append-ok")
				_, is := c4RowByUID(b, uid)
				vsymAssert(is, "the message is found under the UID announced by APPENDUID")
				_, old := beforeB[uid]
				vsymAssert(!old, "APPENDUID is a UID that was not in use before")
			}
		case 1, 2: // COPY / MOVE A -> B
			if viewA == 0 {
				vsymAssume(false)
			}
			set, want := c4Set(viewA)
			var item response.Item
			var err error
			if vsymChoice("move", 2) == 1 {
				item, err = mboxA.Move(ctxFor(sa), set, "B")
			} else {
				item, err = mboxA.Copy(ctxFor(sa), set, "B")
			}
			if err == nil {
				c4CheckCopyUID(item, want, beforeA, b, beforeB)
			}
		case 3: // the session on B deletes and expunges its highest message
			if viewB == 0 {
				vsymAssume(false)
			}
			if err := mboxB.Store(ctxFor(sb), []command.SeqRange{{Begin: 0, End: 0}}, command.StoreActionAddFlags, imap.NewFlagSet(imap.FlagDeleted)); err == nil {
				if mboxB.Expunge(ctxFor(sb), nil) == nil {
					vsymCover("expunged-highest")
				}
			}
		case 4: // COPY onto the same mailbox (fresh UIDs)
			if viewB == 0 {
				vsymAssume(false)
			}
			set, want := c4Set(viewB)
			item, err := mboxB.Copy(ctxFor(sb), set, "B")
			if err == nil {
				c4CheckCopyUID(item, want, beforeB, b, beforeB)
			}
		case 5: // MOVE B -> A
			if viewB == 0 {
				vsymAssume(false)
			}
			set, want := c4Set(viewB)
			item, err := mboxB.Move(ctxFor(sb), set, "A")
			if err == nil {
				c4CheckCopyUID(item, want, beforeB, a, beforeA)
			}
		}
		ga.observe(a, "A")
		gb.observe(b, "B")
		ga.uidNext(ctxFor(sa), mboxA, "A")
		gb.uidNext(ctxFor(sb), mboxB, "B")
	}
}
