package main

import (
	"fmt"
	"go/constant"
	"go/token"
	"go/types"
	"slices"
	"os"
	"strings"
	"sync"

	"golang.org/x/tools/go/ssa"
)

// ---------- shared program ----------

type fnInfo struct {
	index     map[ssa.Value]int
	n         int
	intrinsic intrinsicFn
	summarise bool
	isGluon   bool
	name      string
}

type Program struct {
	prog       *ssa.Program
	fset       *token.FileSet
	mu         sync.Mutex
	fninfo     map[*ssa.Function]*fnInfo
	consts     sync.Map
	cfg        *Spec
	rtErrT     types.Type // runtime.errorString
	errorStrT  types.Type // *errors.errorString
	wrapErrT   types.Type // *fmt.wrapError
	wrapErrsT  types.Type // *fmt.wrapErrors
	summariseR []string
}

func (p *Program) info(fn *ssa.Function) *fnInfo {
	p.mu.Lock()
	defer p.mu.Unlock()
	if fi, ok := p.fninfo[fn]; ok {
		return fi
	}
	fi := &fnInfo{index: map[ssa.Value]int{}}
	add := func(v ssa.Value) {
		fi.index[v] = fi.n
		fi.n++
	}
	for _, x := range fn.Params {
		add(x)
	}
	for _, x := range fn.FreeVars {
		add(x)
	}
	for _, b := range fn.Blocks {
		for _, in := range b.Instrs {
			if v, ok := in.(ssa.Value); ok {
				add(v)
			}
		}
	}
	fi.name = fn.String()
	oname := fi.name
	if o := fn.Origin(); o != nil {
		oname = o.String()
	}
	fi.intrinsic = lookupIntrinsic(fn, fi.name, oname)
	for _, s := range p.summariseR {
		if s == fi.name || s == oname {
			fi.summarise = true
		}
	}
	if fn.Pkg != nil && strings.HasPrefix(fn.Pkg.Pkg.Path(), "github.com/ProtonMail/gluon") {
		fi.isGluon = true
	} else if fn.Pkg == nil && strings.Contains(fi.name, "github.com/ProtonMail/gluon") {
		fi.isGluon = true
	}
	p.fninfo[fn] = fi
	return fi
}

// ---------- control-flow signals (Go panics used internally) ----------

var traceFn = os.Getenv("VERIF_TRACE_FN")

type targetPanic struct{ v Value } // a panic of the interpreted program

type pathEndKind int

const (
	endInfeasible pathEndKind = iota
	endCut
	endUnsupported
	endBound
	endBlocked
	endViolationStop
)

func (k pathEndKind) String() string {
	return [...]string{"infeasible", "cut", "unsupported", "bound", "blocked", "violation-stop"}[k]
}

type pathEnd struct {
	kind pathEndKind
	msg  string
}

type summaryAbort struct{ why string }

// ---------- frames ----------

type deferred struct {
	fn    Value
	args  []Value
	instr *ssa.Defer
	tail  *deferred
}

type frame struct {
	e         *Exec
	caller    *frame
	fn        *ssa.Function
	info      *fnInfo
	block     *ssa.BasicBlock
	prev      *ssa.BasicBlock
	regs      []Value
	defers    *deferred
	result    Value
	panicking bool
	panicVal  interface{}
	depth     int
	loopCount map[ssa.Instruction]int
	cur       ssa.Instruction
}

func (fr *frame) get(key ssa.Value) Value {
	switch key := key.(type) {
	case nil:
		return nil
	case *ssa.Const:
		return fr.e.P.constValue(key)
	case *ssa.Global:
		return fr.e.global(key)
	case *ssa.Function:
		return key
	case *ssa.Builtin:
		return key
	}
	if i, ok := fr.info.index[key]; ok {
		return fr.regs[i]
	}
	panic(fmt.Sprintf("get: no value for %T %v in %s", key, key.Name(), fr.fn))
}

func (fr *frame) set(key ssa.Value, v Value) {
	fr.regs[fr.info.index[key]] = v
}

func (p *Program) constValue(c *ssa.Const) Value {
	if v, ok := p.consts.Load(c); ok {
		return v
	}
	v := constValue0(c)
	p.consts.Store(c, v)
	return v
}

func constValue0(c *ssa.Const) Value {
	if c.Value == nil {
		return zero(c.Type())
	}
	if t, ok := c.Type().Underlying().(*types.Basic); ok {
		ki := basicInfo(t)
		switch {
		case ki.isBool:
			return mkBool(constant.BoolVal(c.Value))
		case ki.isInt:
			if ki.signed {
				return Sc{C: canon(uint64(c.Int64()), ki)}
			}
			return Sc{C: canon(c.Uint64(), ki)}
		case ki.isStr:
			if c.Value.Kind() == constant.String {
				return Str{s: constant.StringVal(c.Value)}
			}
			return Str{s: string(rune(c.Int64()))}
		case ki.isFlt:
			if t.Kind() == types.Float32 {
				return float32(c.Float64())
			}
			return c.Float64()
		}
		if t.Kind() == types.Complex128 || t.Kind() == types.Complex64 {
			return c.Complex128()
		}
	}
	panic(fmt.Sprintf("constValue: %s", c))
}

// ---------- memory ----------

type jentry struct {
	addr *Value
	old  Value
	T    types.Type
	undo func()
}

func (e *Exec) setCell(addr *Value, v Value) { e.setCellT(nil, addr, v) }

func (e *Exec) setCellT(T types.Type, addr *Value, v Value) {
	if e.noJournal == 0 {
		e.journal = append(e.journal, jentry{addr: addr, old: *addr, T: T})
	}
	*addr = v
}

func (e *Exec) journalUndo(f func()) {
	if e.noJournal == 0 {
		e.journal = append(e.journal, jentry{undo: f})
	}
}

func (e *Exec) undoTo(n int) {
	for i := len(e.journal) - 1; i >= n; i-- {
		j := e.journal[i]
		if j.undo != nil {
			j.undo()
		} else {
			*j.addr = j.old
		}
		e.journal[i] = jentry{}
	}
	e.journal = e.journal[:n]
}

func (e *Exec) load(T types.Type, addr *Value) Value {
	return copyVal(*addr)
}

func (e *Exec) store(T types.Type, addr *Value, v Value) {
	switch lhs := (*addr).(type) {
	case Struct:
		rhs := v.(Struct)
		var st *types.Struct
		if T != nil {
			st, _ = T.Underlying().(*types.Struct)
		}
		for i := range lhs {
			var ft types.Type
			if st != nil {
				ft = st.Field(i).Type()
			}
			e.store(ft, &lhs[i], rhs[i])
		}
	case Array:
		rhs := v.(Array)
		var et types.Type
		if T != nil {
			if at, ok := T.Underlying().(*types.Array); ok {
				et = at.Elem()
			}
		}
		for i := range lhs {
			e.store(et, &lhs[i], rhs[i])
		}
	default:
		e.setCellT(T, addr, v)
	}
}

func (e *Exec) deref(fr *frame, p Value) *Value {
	pp, ok := p.(*Value)
	if !ok {
		panic(fmt.Sprintf("deref of %T", p))
	}
	if pp == nil {
		e.rtPanic("invalid memory address or nil pointer dereference")
	}
	return pp
}

// rtPanic raises a Go run-time error in the interpreted program.
func (e *Exec) rtPanic(msg string) {
	panic(targetPanic{Iface{t: e.P.rtErrT, v: Str{s: msg}}})
}

func (e *Exec) unsupported(format string, a ...interface{}) {
	where := ""
	n := 0
	for f := e.top; f != nil && n < 4; f = f.caller {
		if f.cur != nil {
			where += " <- " + f.fn.String() + "@" + e.P.fset.Position(f.cur.Pos()).String()
		}
		n++
	}
	panic(pathEnd{endUnsupported, fmt.Sprintf(format, a...) + where})
}

// ---------- instruction interpretation ----------

type continuation int

const (
	kNext continuation = iota
	kReturn
	kJump
)

func (e *Exec) visitInstr(fr *frame, instr ssa.Instruction) continuation {
	switch instr := instr.(type) {
	case *ssa.DebugRef:

	case *ssa.UnOp:
		fr.set(instr, e.unop(fr, instr, fr.get(instr.X)))

	case *ssa.BinOp:
		if instr.Op == token.SHL || instr.Op == token.SHR {
			fr.set(instr, e.shiftOp(instr.Op, instr.X.Type(), instr.Y.Type(), fr.get(instr.X).(Sc), fr.get(instr.Y).(Sc)))
		} else {
			fr.set(instr, e.binop(instr.Op, instr.X.Type(), fr.get(instr.X), fr.get(instr.Y)))
		}

	case *ssa.Call:
		fn, args := e.prepareCall(fr, &instr.Call)
		fr.set(instr, e.call(fr, instr.Pos(), fn, args))

	case *ssa.ChangeInterface:
		fr.set(instr, fr.get(instr.X))

	case *ssa.ChangeType:
		fr.set(instr, fr.get(instr.X))

	case *ssa.Convert:
		fr.set(instr, e.conv(instr.Type(), instr.X.Type(), fr.get(instr.X)))

	case *ssa.SliceToArrayPointer:
		x := fr.get(instr.X).(Slice)
		n := instr.Type().Underlying().(*types.Pointer).Elem().Underlying().(*types.Array).Len()
		if int64(len(x)) < n {
			e.rtPanic("cannot convert slice to array pointer: length too short")
		}
		if x == nil {
			fr.set(instr, (*Value)(nil))
		} else {
			// array aliasing the slice's backing store
			var cell Value = Array(x[:n:n])
			fr.set(instr, &cell)
		}

	case *ssa.MakeInterface:
		fr.set(instr, Iface{t: instr.X.Type(), v: fr.get(instr.X)})

	case *ssa.Extract:
		fr.set(instr, fr.get(instr.Tuple).(Tuple)[instr.Index])

	case *ssa.Slice:
		fr.set(instr, e.sliceOp(fr, instr))

	case *ssa.Return:
		switch len(instr.Results) {
		case 0:
		case 1:
			fr.result = fr.get(instr.Results[0])
		default:
			res := make(Tuple, len(instr.Results))
			for i, r := range instr.Results {
				res[i] = fr.get(r)
			}
			fr.result = res
		}
		fr.block = nil
		return kReturn

	case *ssa.RunDefers:
		fr.runDefers()

	case *ssa.Panic:
		panic(targetPanic{fr.get(instr.X)})

	case *ssa.Send:
		e.chanSend(fr.get(instr.Chan).(*Chan), fr.get(instr.X))

	case *ssa.Store:
		addr := e.deref(fr, fr.get(instr.Addr))
		e.store(instr.Val.Type(), addr, fr.get(instr.Val))

	case *ssa.If:
		c := fr.get(instr.Cond).(Sc)
		if c.T != nil {
			fr.loopCheck(instr)
		}
		succ := 1
		if e.branch(c) {
			succ = 0
		}
		fr.prev, fr.block = fr.block, fr.block.Succs[succ]
		return kJump

	case *ssa.Jump:
		fr.prev, fr.block = fr.block, fr.block.Succs[0]
		return kJump

	case *ssa.Defer:
		fn, args := e.prepareCall(fr, &instr.Call)
		defers := &fr.defers
		if instr.DeferStack != nil {
			if into := fr.get(instr.DeferStack); into != nil {
				defers = into.(**deferred)
			}
		}
		*defers = &deferred{fn: fn, args: args, instr: instr, tail: *defers}

	case *ssa.Go:
		if !e.P.cfg.Goroutines {
			e.unsupported("go statement in %s", fr.fn)
		}
		fn, args := e.prepareCall(fr, &instr.Call)
		e.spawn(instr.Pos(), fn, args)

	case *ssa.MakeChan:
		n := e.concInt(fr.get(instr.Size).(Sc), "chan size")
		fr.set(instr, &Chan{cap: int(n)})

	case *ssa.Alloc:
		cell := new(Value)
		*cell = zero(instr.Type().Underlying().(*types.Pointer).Elem())
		fr.set(instr, cell)

	case *ssa.MakeSlice:
		if l := fr.get(instr.Len).(Sc); l.T != nil && e.P.cfg.AllocLimit > 0 && e.local == nil {
			e.allocObligation(fr, l)
		}
		ln := e.concSize(fr.get(instr.Len).(Sc), "make slice len")
		cp := e.concSize(fr.get(instr.Cap).(Sc), "make slice cap")
		if ln < 0 || cp < ln {
			e.rtPanic("makeslice: len out of range")
		}
		if cp > 1<<26 {
			panic(pathEnd{endCut, fmt.Sprintf("allocation of %d elements exceeds the engine's sanity limit", cp)})
		}
		tElt := instr.Type().Underlying().(*types.Slice).Elem()
		s := make(Slice, cp)
		z := zero(tElt)
		switch z.(type) {
		case Struct, Array:
			for i := range s {
				s[i] = zero(tElt)
			}
		default:
			for i := range s {
				s[i] = z
			}
		}
		fr.set(instr, s[:ln])

	case *ssa.MakeMap:
		fr.set(instr, &Map{keyT: instr.Type().Underlying().(*types.Map).Key(), idx: map[interface{}]*mapEntry{}})

	case *ssa.Range:
		fr.set(instr, e.rangeIter(fr.get(instr.X), instr.X.Type()))

	case *ssa.Next:
		fr.set(instr, e.iterNext(fr.get(instr.Iter)))

	case *ssa.FieldAddr:
		p := e.deref(fr, fr.get(instr.X))
		fr.set(instr, &(*p).(Struct)[instr.Field])

	case *ssa.Field:
		fr.set(instr, fr.get(instr.X).(Struct)[instr.Field])

	case *ssa.IndexAddr:
		fr.set(instr, e.indexAddr(fr, instr))

	case *ssa.Index:
		fr.set(instr, e.indexOp(fr, instr))

	case *ssa.Lookup:
		fr.set(instr, e.lookup(fr, instr))

	case *ssa.MapUpdate:
		m := fr.get(instr.Map).(*Map)
		if m == nil {
			e.rtPanic("assignment to entry in nil map")
		}
		e.mapInsert(m, fr.get(instr.Key), fr.get(instr.Value))

	case *ssa.TypeAssert:
		fr.set(instr, e.typeAssert(instr, fr.get(instr.X).(Iface)))

	case *ssa.MakeClosure:
		bindings := make([]Value, len(instr.Bindings))
		for i, b := range instr.Bindings {
			bindings[i] = fr.get(b)
		}
		fr.set(instr, &Closure{instr.Fn.(*ssa.Function), bindings})

	case *ssa.Select:
		fr.set(instr, e.selectOp(fr, instr))

	default:
		panic(fmt.Sprintf("unexpected instruction: %T", instr))
	}
	return kNext
}

func (fr *frame) loopCheck(instr ssa.Instruction) {
	if fr.loopCount == nil {
		fr.loopCount = map[ssa.Instruction]int{}
	}
	fr.loopCount[instr]++
	if fr.loopCount[instr] > fr.e.P.cfg.MaxSymLoop {
		if fr.e.P.cfg.SymLoopCut { // declared bound: the rest of this path is outside the claim, everything before it was checked
			fr.e.cut(fmt.Sprintf("loop unwinding limit %d at %s", fr.e.P.cfg.MaxSymLoop, fr.e.P.fset.Position(instr.Pos())))
		}
		panic(pathEnd{endBound, fmt.Sprintf("symbolic branch visited > %d times in one frame at %s", fr.e.P.cfg.MaxSymLoop, fr.e.P.fset.Position(instr.Pos()))})
	}
}

func (e *Exec) prepareCall(fr *frame, call *ssa.CallCommon) (fn Value, args []Value) {
	v := fr.get(call.Value)
	if call.Method == nil {
		fn = v
		args = make([]Value, 0, len(call.Args))
	} else {
		recv := v.(Iface)
		if recv.t == nil {
			e.rtPanic("invalid memory address or nil pointer dereference (method call on nil interface)")
		}
		f := e.P.prog.LookupMethod(recv.t, call.Method.Pkg(), call.Method.Name())
		if f == nil {
			panic(fmt.Sprintf("method set for dynamic type %v does not contain %s", recv.t, call.Method))
		}
		fn = f
		args = make([]Value, 0, len(call.Args)+1)
		args = append(args, recv.v)
	}
	for _, a := range call.Args {
		args = append(args, fr.get(a))
	}
	return
}

func (e *Exec) call(caller *frame, pos token.Pos, fn Value, args []Value) Value {
	switch fn := fn.(type) {
	case *ssa.Function:
		if fn == nil {
			e.rtPanic("invalid memory address or nil pointer dereference (call of nil func)")
		}
		return e.callSSA(caller, pos, fn, args, nil)
	case *Closure:
		return e.callSSA(caller, pos, fn.Fn, args, fn.Env)
	case *ssa.Builtin:
		return e.callBuiltin(caller, pos, fn, args)
	}
	panic(fmt.Sprintf("cannot call %T", fn))
}

func (e *Exec) callSSA(caller *frame, pos token.Pos, fn *ssa.Function, args []Value, env []Value) Value {
	fi := e.P.info(fn)
	if fi.intrinsic != nil {
		return fi.intrinsic(e, caller, fn, args)
	}
	if fn.Pkg != nil {
		if fn.Name() == "init" && fn.Signature.Recv() == nil && fn == fn.Pkg.Func("init") && caller != nil {
			// package initialisers are run lazily (on first use), not by their importers
			return nil
		}
		e.ensureInit(fn.Pkg)
	}
	if fn.Blocks == nil {
		e.unsupported("no body for function %s", fi.name)
	}
	if fi.summarise && e.local == nil && e.noSummary == 0 {
		if v, ok := e.callSummarised(caller, pos, fn, fi, args, env); ok {
			return v
		}
	}
	return e.runFunc(caller, fn, fi, args, env)
}

func (e *Exec) runFunc(caller *frame, fn *ssa.Function, fi *fnInfo, args []Value, env []Value) Value {
	depth := 0
	if caller != nil {
		depth = caller.depth + 1
	}
	if depth > e.P.cfg.MaxDepth {
		panic(pathEnd{endBound, fmt.Sprintf("call depth > %d at %s", e.P.cfg.MaxDepth, fi.name)})
	}
	if depth > e.maxDepthSeen {
		e.maxDepthSeen = depth
	}
	if fi.isGluon {
		e.funcsHit[fi.name]++
	}
	fr := &frame{e: e, caller: caller, fn: fn, info: fi, depth: depth}
	fr.regs = make([]Value, fi.n)
	for i, p := range fn.Params {
		fr.regs[fi.index[p]] = args[i]
	}
	for i, fv := range fn.FreeVars {
		fr.regs[fi.index[fv]] = env[i]
	}
	fr.block = fn.Blocks[0]
	saved := e.top
	e.top = fr
	for fr.block != nil {
		e.runFrame(fr)
	}
	e.top = saved
	return fr.result
}

func (e *Exec) runFrame(fr *frame) {
	defer func() {
		if fr.block == nil {
			return // normal return
		}
		r := recover()
		switch r.(type) {
		case targetPanic:
		default:
			panic(r) // engine control flow or engine bug: propagate untouched
		}
		fr.panicking = true
		fr.panicVal = r
		fr.runDefers()
		fr.block = fr.fn.Recover
		if fr.block == nil {
			// recovered, no named results: return zero values
			fr.result = zeroResult(fr.fn)
		}
	}()
	for {
		blk := fr.block
		instrs := blk.Instrs
		// phis
		i := 0
		if _, ok := instrs[0].(*ssa.Phi); ok {
			predIndex := slices.Index(blk.Preds, fr.prev)
			var tmp [8]Value
			temps := tmp[:0]
			for ; i < len(instrs); i++ {
				phi, ok := instrs[i].(*ssa.Phi)
				if !ok {
					break
				}
				temps = append(temps, fr.get(phi.Edges[predIndex]))
			}
			for j := 0; j < i; j++ {
				fr.set(instrs[j].(*ssa.Phi), temps[j])
			}
		}
		for ; i < len(instrs); i++ {
			e.steps++
			fr.cur = instrs[i]
			if e.steps > e.P.cfg.MaxSteps {
				panic(pathEnd{endBound, fmt.Sprintf("more than %d instructions on one path", e.P.cfg.MaxSteps)})
			}
			k := e.visitInstr(fr, instrs[i])
			if traceFn != "" && strings.Contains(fr.fn.Name(), traceFn) {
				if v, ok := instrs[i].(ssa.Value); ok {
					if _, has := fr.info.index[v]; has {
						fmt.Fprintf(os.Stderr, "TRACE %s: %s = %s  => %.120s\n", fr.fn.Name(), v.Name(), instrs[i], describe(fr.get(v)))
					}
				} else {
					fmt.Fprintf(os.Stderr, "TRACE %s: %s\n", fr.fn.Name(), instrs[i])
				}
			}
			if k == kReturn {
				return
			}
		}
	}
}

func zeroResult(fn *ssa.Function) Value {
	res := fn.Signature.Results()
	switch res.Len() {
	case 0:
		return nil
	case 1:
		return zero(res.At(0).Type())
	}
	return zero(res)
}

func (fr *frame) runDefer(d *deferred) {
	var ok bool
	defer func() {
		if !ok {
			r := recover()
			if _, isT := r.(targetPanic); !isT {
				panic(r)
			}
			fr.panicking = true
			fr.panicVal = r
		}
	}()
	fr.e.call(fr, d.instr.Pos(), d.fn, d.args)
	ok = true
}

func (fr *frame) runDefers() {
	for d := fr.defers; d != nil; d = d.tail {
		fr.runDefer(d)
	}
	fr.defers = nil
	if fr.panicking {
		panic(fr.panicVal)
	}
}

func (e *Exec) doRecover(caller *frame) Value {
	if caller != nil && !caller.panicking && caller.caller != nil && caller.caller.panicking {
		caller.caller.panicking = false
		p := caller.caller.panicVal
		caller.caller.panicVal = nil
		if tp, ok := p.(targetPanic); ok {
			return tp.v
		}
		panic(p)
	}
	return Iface{}
}

// ---------- helpers used by instructions ----------

// concInt forces a scalar to a concrete value by case analysis over its feasible values (small domains only).
func (e *Exec) concInt(s Sc, what string) int64 {
	if s.T == nil {
		return int64(s.C)
	}
	return e.concretize(s, what, 64)
}

// concSize concretises allocation sizes: values above MaxAlloc end the path as a cut.
func (e *Exec) concSize(s Sc, what string) int {
	if s.T == nil {
		return int(int64(s.C))
	}
	w := s.T.W
	lim := e.ctx.BV(uint64(e.P.cfg.MaxAlloc), w)
	if e.branch(Sc{T: e.ctx.Ult(lim, s.T)}) {
		// also covers negative values (huge unsigned)
		e.noteAllocCut(what)
		panic(pathEnd{endCut, fmt.Sprintf("%s: symbolic size above MaxAlloc=%d (or negative)", what, e.P.cfg.MaxAlloc)})
	}
	for k := 0; k <= e.P.cfg.MaxAlloc; k++ {
		if e.branch(Sc{T: e.ctx.Eq(s.T, e.ctx.BV(uint64(k), w))}) {
			return k
		}
	}
	panic(pathEnd{endInfeasible, "concSize: no feasible value"})
}

func (e *Exec) concretize(s Sc, what string, limit int) int64 {
	// enumerate feasible values via solver models
	w := s.T.W
	for n := 0; n < limit; n++ {
		res, model := e.check(nil, e.P.cfg.BranchTimeoutMs, e.ctx.Vars)
		e.stats.Queries++
		if res != Sat {
			if res == Unknown {
				e.unsupported("concretize %s: solver unknown", what)
			}
			panic(pathEnd{endInfeasible, "concretize: pc unsat"})
		}
		v := s.T.Eval(model, map[*Term]uint64{})
		if e.branch(Sc{T: e.ctx.Eq(s.T, e.ctx.BV(v, w))}) {
			return sext64(v, w)
		}
	}
	panic(pathEnd{endBound, fmt.Sprintf("concretize %s: more than %d feasible values", what, limit)})
}

// allocObligation: a make() whose symbolic size can exceed the configured limit is unbounded memory growth.
func (e *Exec) allocObligation(fr *frame, l Sc) {
	w := l.T.W
	if w < 32 {
		return
	}
	d := e.dec
	if d.pos < len(d.prefix) {
		dc := d.prefix[d.pos]
		d.pos++
		if dc.val && !dc.forced {
			e.pushPC(e.ctx.Ule(l.T, e.ctx.BV(uint64(e.P.cfg.AllocLimit), w)))
			e.model = nil
		}
		return
	}
	e.stats.Obligations++
	e.pathObl++
	e.oblLabels["allocation-bounded"]++
	bad := e.ctx.Ult(e.ctx.BV(uint64(e.P.cfg.AllocLimit), w), l.T) // also catches negative sizes
	if e.reportIfSat(fr, bad, "panic", fmt.Sprintf("allocation size controlled by input can exceed %d elements (unbounded memory / makeslice panic)", e.P.cfg.AllocLimit)) {
		d.prefix = append(d.prefix, decision{val: true})
		d.pos++
		ok := e.ctx.Not(bad)
		if r, _ := e.check(ok, e.P.cfg.BranchTimeoutMs, nil); r == Unsat {
			panic(pathEnd{endViolationStop, "allocation always exceeds the limit"})
		}
		e.pushPC(ok)
		e.model = nil
		return
	}
	e.stats.Discharged++
	d.prefix = append(d.prefix, decision{val: false, forced: true})
	d.pos++
}

func (e *Exec) noteAllocCut(what string) {
	e.cuts["alloc:"+what]++
}

func (e *Exec) indexAddr(fr *frame, instr *ssa.IndexAddr) Value {
	x := fr.get(instr.X)
	idx := fr.get(instr.Index).(Sc)
	var arr []Value
	switch x := x.(type) {
	case Slice:
		arr = x
	case *Value:
		if x == nil {
			e.rtPanic("invalid memory address or nil pointer dereference")
		}
		arr = (*x).(Array)
	default:
		panic(fmt.Sprintf("IndexAddr on %T", x))
	}
	if idx.T != nil && len(arr) > 1 && onlyLoaded(instr) {
		var elemT types.Type
		switch t := instr.X.Type().Underlying().(type) {
		case *types.Slice:
			elemT = t.Elem()
		case *types.Pointer:
			elemT = t.Elem().Underlying().(*types.Array).Elem()
		}
		if ki := basicInfo(elemT); ki.isInt || ki.isBool {
			return symRef{arr, idx, elemT}
		}
	}
	i := e.checkIndex(idx, instr.Index.Type(), len(arr), true)
	return &arr[i]
}

// checkIndex validates an index against n; symbolic indices are case-split.
func (e *Exec) checkIndex(idx Sc, t types.Type, n int, fork bool) int {
	ki := basicInfo(t)
	if idx.T == nil {
		v := int64(idx.C)
		if ki.signed && v < 0 || uint64(v) >= uint64(n) {
			e.rtPanic(fmt.Sprintf("index out of range [%d] with length %d", v, n))
		}
		return int(v)
	}
	w := idx.T.W
	inRange := e.ultConst(idx.T, uint64(n))
	if !e.branch(e.boolSc(inRange)) {
		e.rtPanic(fmt.Sprintf("index out of range [symbolic] with length %d", n))
	}
	top := n
	if w < 31 && top > 1<<w {
		top = 1 << w
	}
	for k := 0; k < top-1; k++ {
		if e.branch(Sc{T: e.ctx.Eq(idx.T, e.ctx.BV(uint64(k), w))}) {
			return k
		}
	}
	return top - 1
}

func (e *Exec) indexOp(fr *frame, instr *ssa.Index) Value {
	x := fr.get(instr.X)
	idx := fr.get(instr.Index).(Sc)
	switch x := x.(type) {
	case Array:
		if idx.T != nil {
			if v, ok := e.symSelect(idx, len(x), instr.X.Type().Underlying().(*types.Array).Elem(), func(i int) Value { return x[i] }); ok {
				return v
			}
		}
		return x[e.checkIndex(idx, instr.Index.Type(), len(x), true)]
	case Str:
		if x.opaque {
			e.unsupported("index of opaque (formatted) string")
		}
		if idx.T != nil {
			if v, ok := e.symSelect(idx, x.Len(), types.Typ[types.Uint8], func(i int) Value { return x.At(i) }); ok {
				return v
			}
		}
		return x.At(e.checkIndex(idx, instr.Index.Type(), x.Len(), true))
	}
	panic(fmt.Sprintf("Index on %T", x))
}

// symSelect builds an ite-chain for a read at a symbolic index when all elements are scalars.
func (e *Exec) symSelect(idx Sc, n int, elemT types.Type, at func(int) Value) (Value, bool) {
	if n == 0 {
		return nil, false
	}
	ki := basicInfo(elemT)
	if !ki.isBool && !ki.isInt {
		return nil, false
	}
	iw := idx.T.W
	inRange := e.ultConst(idx.T, uint64(n))
	if !e.branch(e.boolSc(inRange)) {
		e.rtPanic(fmt.Sprintf("index out of range [symbolic] with length %d", n))
	}
	toT := func(s Sc) *Term {
		if s.T != nil {
			return s.T
		}
		if ki.isBool {
			return e.ctx.Bool(s.C != 0)
		}
		return e.ctx.BV(s.C, ki.w)
	}
	top := n
	if iw < 31 && top > 1<<iw {
		top = 1 << iw
	}
	allConc := true
	for i := 0; i < top; i++ {
		if at(i).(Sc).T != nil {
			allConc = false
			break
		}
	}
	if allConc {
		// constant table: run-length encode into a chain of unsigned range tests
		res := toT(at(top - 1).(Sc))
		cur := at(top - 1).(Sc).C
		for i := top - 2; i >= 0; i-- {
			v := at(i).(Sc).C
			if v != cur {
				res = e.ctx.Ite(e.ctx.Ule(idx.T, e.ctx.BV(uint64(i), iw)), toT(at(i).(Sc)), res)
				cur = v
			}
		}
		return e.fromTermT(res, ki), true
	}
	res := toT(at(top - 1).(Sc))
	for i := top - 2; i >= 0; i-- {
		res = e.ctx.Ite(e.ctx.Eq(idx.T, e.ctx.BV(uint64(i), iw)), toT(at(i).(Sc)), res)
	}
	return e.fromTermT(res, ki), true
}

// symRef is the address of an element at a symbolic index, only ever loaded from.
type symRef struct {
	arr   []Value
	idx   Sc
	elemT types.Type
}

func onlyLoaded(instr *ssa.IndexAddr) bool {
	refs := instr.Referrers()
	if refs == nil || len(*refs) == 0 {
		return false
	}
	for _, r := range *refs {
		u, ok := r.(*ssa.UnOp)
		if !ok || u.Op != token.MUL {
			if _, isDbg := r.(*ssa.DebugRef); isDbg {
				continue
			}
			return false
		}
	}
	return true
}

func (e *Exec) fromTermT(t *Term, ki kindInfo) Sc {
	if t.Op == OpConst {
		if ki.isBool {
			return Sc{C: t.K}
		}
		return Sc{C: canon(t.K, ki)}
	}
	return Sc{T: t}
}

// ultConst builds t <u k where k may exceed the range of t's width.
func (e *Exec) ultConst(t *Term, k uint64) *Term {
	if t.W < 64 && k > mask(t.W) {
		return e.ctx.True
	}
	if k == 0 {
		return e.ctx.False
	}
	return e.ctx.Ult(t, e.ctx.BV(k, t.W))
}

func (e *Exec) fromTerm(t *Term) Sc {
	if t.Op == OpConst {
		return Sc{C: t.K}
	}
	return Sc{T: t}
}

func (e *Exec) sliceOp(fr *frame, instr *ssa.Slice) Value {
	x := fr.get(instr.X)
	getB := func(v ssa.Value, def int) int {
		if v == nil {
			return def
		}
		s := fr.get(v).(Sc)
		if s.T == nil {
			return int(int64(s.C))
		}
		return -2 // symbolic marker
	}
	var ln, cp int
	switch x := x.(type) {
	case Str:
		ln, cp = x.Len(), x.Len()
	case Slice:
		ln, cp = len(x), cap(x)
	case *Value:
		if x == nil {
			e.rtPanic("slice of nil array pointer")
		}
		a := (*x).(Array)
		ln, cp = len(a), len(a)
	default:
		panic(fmt.Sprintf("slice of %T", x))
	}
	lo := getB(instr.Low, 0)
	hi := getB(instr.High, ln)
	max := getB(instr.Max, cp)
	// symbolic bounds: validity check then case-split
	if lo == -2 || hi == -2 || max == -2 {
		lo, hi, max = e.symSliceBounds(fr, instr, ln, cp)
	}
	if _, isStr := x.(Str); isStr {
		cp = ln
		max = ln
	}
	if lo < 0 || hi < lo || max < hi || max > cp {
		e.rtPanic(fmt.Sprintf("slice bounds out of range [%d:%d:%d] with capacity %d", lo, hi, max, cp))
	}
	switch x := x.(type) {
	case Str:
		if x.opaque {
			e.unsupported("slice of opaque (formatted) string")
		}
		return x.Sub(lo, hi)
	case Slice:
		if x == nil {
			return Slice(nil)
		}
		return x[lo:hi:max]
	case *Value:
		return Slice((*x).(Array))[lo:hi:max]
	}
	panic("unreachable")
}

func (e *Exec) symSliceBounds(fr *frame, instr *ssa.Slice, ln, cp int) (int, int, int) {
	// Evaluate each bound: concrete or case-split within [0,cp]; out-of-range feasible => panic path.
	one := func(v ssa.Value, def int) int {
		if v == nil {
			return def
		}
		s := fr.get(v).(Sc)
		if s.T == nil {
			return int(int64(s.C))
		}
		w := s.T.W
		if !e.branch(e.boolSc(e.ultConst(s.T, uint64(cp)+1))) {
			e.rtPanic(fmt.Sprintf("slice bounds out of range [symbolic] with capacity %d", cp))
		}
		for k := 0; k < cp; k++ {
			if e.branch(Sc{T: e.ctx.Eq(s.T, e.ctx.BV(uint64(k), w))}) {
				return k
			}
		}
		return cp
	}
	lo := one(instr.Low, 0)
	hi := one(instr.High, ln)
	max := one(instr.Max, cp)
	return lo, hi, max
}

func (e *Exec) typeAssert(instr *ssa.TypeAssert, itf Iface) Value {
	var v Value
	err := ""
	if itf.t == nil {
		err = fmt.Sprintf("interface conversion: interface is nil, not %s", instr.AssertedType)
	} else if idst, ok := instr.AssertedType.Underlying().(*types.Interface); ok {
		v = itf
		if m, _ := types.MissingMethod(itf.t, idst, true); m != nil {
			err = fmt.Sprintf("interface conversion: %v is not %v: missing method %s", itf.t, idst, m.Name())
		}
	} else if types.Identical(itf.t, instr.AssertedType) {
		v = itf.v
	} else {
		err = fmt.Sprintf("interface conversion: interface is %s, not %s", itf.t, instr.AssertedType)
	}
	if err != "" {
		if !instr.CommaOk {
			e.rtPanic(err)
		}
		return Tuple{zero(instr.AssertedType), mkBool(false)}
	}
	if instr.CommaOk {
		return Tuple{v, mkBool(true)}
	}
	return v
}

// ---------- channels (single goroutine FIFO model) ----------

func (e *Exec) chanSend(c *Chan, v Value) {
	if c == nil {
		panic(pathEnd{endBlocked, "send on nil channel"})
	}
	if c.closed {
		panic(targetPanic{Iface{t: e.P.rtErrT, v: Str{s: "send on closed channel"}}})
	}
	if len(c.buf) >= c.cap {
		// (an unbuffered channel is modelled as one with a single slot: the sender does not wait for the receiver)
		e.blockUntil(func() bool { return c.closed || len(c.buf) < c.cap || (c.cap == 0 && len(c.buf) < 1 && e.P.cfg.Goroutines) }, "send on full/unbuffered channel")
		if c.closed {
			panic(targetPanic{Iface{t: e.P.rtErrT, v: Str{s: "send on closed channel"}}})
		}
	}
	old := c.buf
	e.journalUndo(func() { c.buf = old })
	c.buf = append(append([]Value(nil), c.buf...), v)
}

func (e *Exec) chanRecv(c *Chan, elem types.Type) (Value, bool) {
	if c == nil {
		panic(pathEnd{endBlocked, "receive on nil channel"})
	}
	if len(c.buf) > 0 {
		old := c.buf
		e.journalUndo(func() { c.buf = old })
		v := c.buf[0]
		c.buf = append([]Value(nil), c.buf[1:]...)
		return v, true
	}
	if c.closed {
		return zero(elem), false
	}
	e.blockUntil(func() bool { return len(c.buf) > 0 || c.closed }, "receive on empty channel")
	return e.chanRecv(c, elem)
}

func (e *Exec) chanClose(c *Chan) {
	if c == nil {
		e.rtPanic("close of nil channel")
	}
	if c.closed {
		e.rtPanic("close of closed channel")
	}
	e.journalUndo(func() { c.closed = false })
	c.closed = true
}

func (e *Exec) selectOp(fr *frame, instr *ssa.Select) Value {
	// pick the first ready case (deterministic); default if none; blocked otherwise
	chosen := -1
	// a ticker case fires or not by symbolic choice, whatever else is ready (Go picks among ready cases at random)
	for i, st := range instr.States {
		if c, ok := fr.get(st.Chan).(*Chan); ok && c != nil && c.ticker && c.ticks > 0 && st.Dir == types.RecvOnly {
			if e.branch(Sc{T: e.freshVar("tick", 0)}) {
				old := c.ticks
				e.journalUndo(func() { c.ticks = old })
				c.ticks--
				chosen = i
				break
			}
		}
	}
	tickerChosen := chosen
	ready := func() int {
		for i, st := range instr.States {
			c := fr.get(st.Chan).(*Chan)
			if c == nil {
				continue
			}
			if st.Dir == types.RecvOnly {
				if len(c.buf) > 0 || c.closed {
					return i
				}
			} else {
				if c.closed || len(c.buf) < c.cap || (e.P.cfg.Goroutines && c.cap == 0 && len(c.buf) < 1) {
					return i
				}
			}
		}
		return -1
	}
	if chosen < 0 {
		chosen = ready()
	}
	if chosen < 0 && instr.Blocking {
		e.blockUntil(func() bool { return ready() >= 0 }, "select with no ready case")
		chosen = ready()
	}
	r := Tuple{mkInt(int64(chosen)), mkBool(false)}
	for i, st := range instr.States {
		if st.Dir == types.RecvOnly {
			elem := st.Chan.Type().Underlying().(*types.Chan).Elem()
			if i == chosen && i == tickerChosen {
				r[1] = mkBool(true)
				r = append(r, zero(elem))
			} else if i == chosen {
				v, ok := e.chanRecv(fr.get(st.Chan).(*Chan), elem)
				r[1] = mkBool(ok)
				r = append(r, v)
			} else {
				r = append(r, zero(elem))
			}
		} else if i == chosen {
			e.chanSend(fr.get(st.Chan).(*Chan), fr.get(st.Send))
		}
	}
	return r
}
