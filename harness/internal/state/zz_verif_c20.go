package state

import (
	"bytes"
	"errors"

	"github.com/ProtonMail/gluon/connector"
	"github.com/ProtonMail/gluon/imap"
	"github.com/ProtonMail/gluon/imap/command"
	"github.com/ProtonMail/gluon/internal/ids"
	"github.com/ProtonMail/gluon/limits"
)

var verifLiterals = []string{
	"To: a@b.c\r\nFrom: d@e.f\r\nSubject: one\r\n\r\nbody one\r\n",
	"To: a@b.c\r\nFrom: d@e.f\r\nSubject: two\r\n\r\nbody two\r\n",
}

// verifCaseVariant returns s with a symbolic letter case for every ASCII letter.
func verifCaseVariant(s string) string {
	out := make([]byte, len(s))
	for i := 0; i < len(s); i++ {
		c := s[i]
		if c >= 'a' && c <= 'z' || c >= 'A' && c <= 'Z' {
			lower := c | 0x20
			upper := c &^ 0x20
			out[i] = byte(vsymIteInt(vsymBool("upper"), int(upper), int(lower)))
		} else {
			out[i] = c
		}
	}
	return string(out)
}

// VerifC20Append: a message handed to APPEND is never silently lost.
func VerifC20Append() {
	k := vsymParam("k")
	w := verifNewWorld(limits.DefaultLimits())
	w.conn.faultBudget = vsymParam("faults")
	w.conn.sizeErr = connector.ErrMessageSizeExceedsLimits
	a := w.db.AddBox("A", "mb-A", 2)
	rec := w.db.BoxByID(w.user.recovery.InternalID)
	st := w.newState(1)
	ctx := ctxFor(st)
	var mboxA *Mailbox
	if err := st.Select(ctx, "A", func(m *Mailbox) error { mboxA = m; return nil }); err != nil {
		panic(err)
	}
	recovered := [2]int{} // how many copies of each literal the recovery mailbox must hold
	for step := 0; step < k; step++ {
		li := vsymChoice("literal", 2)
		lit := []byte(verifLiterals[li])
		rowsA := len(a.Rows)
		rowsRec := len(rec.Rows)
		uid, err := mboxA.Append(ctx, lit, imap.NewFlagSet(), time0())
		switch {
		case err == nil:
			vsymCover("append-ok")
			vsymAssert(len(a.Rows) == rowsA+1, "OK: the target mailbox gained exactly one message")
			r := a.Rows[len(a.Rows)-1]
			vsymAssert(r.UID == uid, "OK: the message is found under the announced UID")
			stored, gerr := w.store.Get(r.Msg)
			vsymAssert(gerr == nil, "OK: the message bytes are in the store")
			if gerr == nil {
				vsymAssert(bytes.HasSuffix(stored, lit), "OK: the stored bytes are the appended message (after the ID header line)")
			}
			vsymAssert(len(rec.Rows) == rowsRec, "OK: nothing goes to the recovery mailbox")
		case errors.Is(err, connector.ErrMessageSizeExceedsLimits):
			vsymCover("append-too-large")
			vsymAssert(len(a.Rows) == rowsA && len(rec.Rows) == rowsRec, "size rejection stores nothing")
		default:
			vsymCover("append-failed")
			vsymAssert(len(a.Rows) == rowsA, "failed APPEND leaves the target mailbox unchanged")
			if recovered[li] == 0 {
				vsymAssert(len(rec.Rows) == rowsRec+1, "rejected message is kept in the recovery mailbox")
				if len(rec.Rows) == rowsRec+1 {
					stored, gerr := w.store.Get(rec.Rows[len(rec.Rows)-1].Msg)
					vsymAssert(gerr == nil && bytes.Equal(stored, lit), "recovery mailbox holds the exact bytes")
				}
				recovered[li] = 1
			} else {
				vsymCover("append-failed-again")
				vsymAssert(len(rec.Rows) == rowsRec, "the same message is kept only once")
				vsymAssert(errors.Is(err, ErrKnownRecoveredMessage), "second rejection of the same bytes reports a known recovered message")
			}
		}
	}
	vsymAssert(len(rec.Rows) == recovered[0]+recovered[1], "recovery mailbox holds one copy per distinct rejected message")
}

// VerifC20Protected: the recovery mailbox is refused as target of APPEND / CREATE / RENAME / DELETE / COPY / MOVE
// for every letter case of its name, and a name that merely starts with it cannot be created.
func VerifC20Protected() {
	w := verifNewWorld(limits.DefaultLimits())
	a := w.db.AddBox("A", "mb-A", 2)
	w.addMessage(a, 1)
	st := w.newState(1)
	ctx := ctxFor(st)
	var mboxA *Mailbox
	if err := st.Select(ctx, "A", func(m *Mailbox) error { mboxA = m; return nil }); err != nil {
		panic(err)
	}
	name := verifCaseVariant(ids.GluonRecoveryMailboxName)
	boxes := len(w.db.Boxes)
	all := []command.SeqRange{{Begin: 1, End: 0}}
	var err error
	switch vsymChoice("op", 7) {
	case 0:
		err = st.AppendOnlyMailbox(ctx, name, func(m AppendOnlyMailbox, sel bool) error { return nil })
	case 1:
		err = st.Create(ctx, name)
	case 2:
		err = st.Create(ctx, name+"/child")
	case 3:
		_, err = st.Delete(ctx, name)
	case 4:
		if vsymChoice("renameDir", 2) == 0 {
			err = st.Rename(ctx, name, "other")
		} else {
			err = st.Rename(ctx, "A", name)
		}
	case 5:
		_, err = mboxA.Copy(ctx, all, name)
	case 6:
		_, err = mboxA.Move(ctx, all, name)
	}
	vsymAssert(err != nil, "operation on the recovery mailbox is refused")
	vsymAssert(errors.Is(err, ErrOperationNotAllowed), "refusal is ErrOperationNotAllowed")
	vsymAssert(len(w.db.Boxes) == boxes, "no mailbox created or deleted")
	rec := w.db.BoxByID(w.user.recovery.InternalID)
	vsymAssert(rec != nil && rec.Name == ids.GluonRecoveryMailboxName && len(rec.Rows) == 0, "recovery mailbox untouched")
	vsymAssert(len(a.Rows) == 1, "source mailbox untouched")
}
