package state

import (
	"github.com/ProtonMail/gluon/imap/command"
)

var c13Templates = []string{
	"",
	"Content-Type: text/plain\r\n",
	"Content-Type: message/rfc822\r\n\r\n",
	"Content-Type: multipart/mixed; boundary=b\r\n\r\n--b\r\n",
}

// VerifC13Sections: relations between the sections FETCH returns for one literal:
// BODY[HEADER] ++ BODY[TEXT] = BODY[] ; BODY[] is the literal; BODY[1] of a non-multipart message is its text;
// part sections of a multipart message are sub-slices of the literal.
func VerifC13Sections() {
	n := vsymParam("n")
	tpl := c13Templates[vsymParam("template")]
	lit := append([]byte(tpl), vsymBytes("lit", n)...)
	orig := make([]byte, len(lit))
	copy(orig, lit)
	whole, _, err := fetchBodyLiteral(nil, lit)
	vsymAssert(err == nil && len(whole) == len(orig), "BODY[] is the whole literal")
	hdr, err1 := fetchBodySection(&command.BodySectionHeader{}, lit)
	txt, err2 := fetchBodySection(&command.BodySectionText{}, lit)
	if err1 != nil || err2 != nil {
		vsymCover("section-error")
		return
	}
	vsymCover("sections-ok")
	// known finding F10: for a message whose own Content-Type is message/rfc822 HEADER/TEXT descend into the embedded message
	vsymKnown("F10", vsymParam("template") == 2)
	vsymAssert(len(hdr)+len(txt) == len(orig), "BODY[HEADER] and BODY[TEXT] together are as long as BODY[]")
	if len(hdr)+len(txt) == len(orig) {
		for i := range hdr {
			vsymAssert(hdr[i] == orig[i], "BODY[HEADER] is the front of BODY[]")
		}
		for i := range txt {
			vsymAssert(txt[i] == orig[len(hdr)+i], "BODY[TEXT] is the rest of BODY[]")
		}
	}
	// numbered parts: never a panic; a part is a sub-slice of the literal
	for _, path := range [][]int{{1}, {2}, {1, 1}} {
		part, err := fetchBodySection(&command.BodySectionPart{Part: path}, lit)
		if err != nil {
			continue
		}
		vsymAssert(len(part) <= len(orig), "a numbered part is not longer than the message")
		mime, err := fetchBodySection(&command.BodySectionPart{Part: path, Section: &command.BodySectionMIME{}}, lit)
		if err == nil {
			vsymAssert(len(mime)+len(part) <= len(orig), "part header and part body lie inside the message")
		}
	}
}
