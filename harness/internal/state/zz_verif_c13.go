package state

import (
	"github.com/ProtonMail/gluon/imap/command"
)

var c13Templates = []string{
	"",
	"Content-Type: text/plain\r\n",
	"Content-Type: message/rfc822\r\n\r\n",
	"Content-Type: multipart/mixed; boundary=b\r\n\r\n--b\r\n",
}

// VerifC13Sections: relations between the sections FETCH returns for one literal:
// BODY[HEADER] ++ BODY[TEXT] = BODY[] ; BODY[] is the literal; BODY[1] of a non-multipart message is its text;
// part sections of a multipart message are sub-slices of the literal.
func VerifC13Sections() {
	n := vsymParam("n")
	tpl := c13Templates[vsymParam("template")]
	lit := append([]byte(tpl), vsymBytes("lit", n)...)
	orig := make([]byte, len(lit))
	copy(orig, lit)
	whole, _, err := fetchBodyLiteral(nil, lit)
	vsymAssert(err == nil && len(whole) == len(orig), "BODY[] is the whole literal")
	hdr, err1 := fetchBodySection(&command.BodySectionHeader{}, lit)
	txt, err2 := fetchBodySection(&command.BodySectionText{}, lit)
	if err1 != nil || err2 != nil {
		vsymCover("section-error")
		return
	}
	vsymCover("sections-ok")
	// known finding F10: for a message whose own Content-Type is message/rfc822 HEADER/TEXT descend into the embedded message
	vsymKnown("F10", vsymParam("template") == 2)
	vsymAssert(len(hdr)+len(txt) == len(orig), "BODY[HEADER] and BODY[TEXT] together are as long as BODY[]")
	if len(hdr)+len(txt) == len(orig) {
		for i := range hdr {
			vsymAssert(hdr[i] == orig[i], "BODY[HEADER] is the front of BODY[]")
		}
		for i := range txt {
			vsymAssert(txt[i] == orig[len(hdr)+i], "BODY[TEXT] is the rest of BODY[]")
		}
	}
	// numbered parts: never a panic; a part is a sub-slice of the literal
	for _, path := range [][]int{{1}, {2}, {1, 1}} {
		part, err := fetchBodySection(&command.BodySectionPart{Part: path}, lit)
		if err != nil {
			continue
		}
		vsymAssert(len(part) <= len(orig), "a numbered part is not longer than the message")
		mime, err := fetchBodySection(&command.BodySectionPart{Part: path, Section: &command.BodySectionMIME{}}, lit)
		if err == nil {
			vsymAssert(len(mime)+len(part) <= len(orig), "part header and part body lie inside the message")
		}
	}
}

// VerifC13Parts: a multipart message whose first part is an embedded message (message/rfc822) and whose second part
// is text, with arbitrary bytes inside the bodies: every section path is compared with the exact bytes it denotes
// (RFC 3501 6.4.5: n.MIME = the part's own MIME header, n.HEADER / n.TEXT = header / body of the embedded message,
// n = the part's body).
func VerifC13Parts() {
	g := vsymParam("g")
	gap1 := vsymBytes("inner", g)
	gap2 := vsymBytes("text", g)
	for _, c := range append(append([]byte(nil), gap1...), gap2...) {
		// the gaps are body text: no line breaks and no dashes, so that they cannot form header lines or delimiters
		vsymAssume(c != '\n')
		vsymAssume(c != '\r')
		vsymAssume(c != '-')
	}
	top := "Content-Type: multipart/mixed; boundary=b\r\nSubject: outer\r\n\r\n"
	mime1 := "Content-Type: message/rfc822\r\nX-Part: one\r\n\r\n"
	hdr1 := "Subject: inner\r\nTo: a@b.c\r\n\r\n"
	body1 := "inner body " + string(gap1)
	mime2 := "Content-Type: text/plain\r\n\r\n"
	body2 := "second " + string(gap2)
	lit := []byte(top + "--b\r\n" + mime1 + hdr1 + body1 + "\r\n--b\r\n" + mime2 + body2 + "\r\n--b--\r\n")

	want := func(sec command.BodySection, exp string, what string) {
		got, err := fetchBodySection(sec, lit)
		vsymAssert(err == nil, what+": section resolves")
		if err != nil {
			return
		}
		vsymAssert(string(got) == exp, what+": exactly the bytes the section denotes")
	}
	part := func(p []int, sec command.BodySection) command.BodySection {
		return &command.BodySectionPart{Part: p, Section: sec}
	}
	want(&command.BodySectionHeader{}, top, "BODY[HEADER]")
	want(part([]int{1}, nil), hdr1+body1, "BODY[1]")
	want(part([]int{1}, &command.BodySectionMIME{}), mime1, "BODY[1.MIME]")
	want(part([]int{1}, &command.BodySectionHeader{}), hdr1, "BODY[1.HEADER]")
	want(part([]int{1}, &command.BodySectionText{}), body1, "BODY[1.TEXT]")
	want(part([]int{1}, &command.BodySectionHeaderFields{Fields: []string{"To"}}), "To: a@b.c\r\n\r\n", "BODY[1.HEADER.FIELDS (To)]")
	want(part([]int{2}, nil), body2, "BODY[2]")
	want(part([]int{2}, &command.BodySectionMIME{}), mime2, "BODY[2.MIME]")
	vsymCover("parts-checked")
}
