"""Differential self-test of the translator: concrete scenario functions built from the repository's own test inputs
are executed by the engine (symbolic executor on go/ssa) and natively (go test with the same overlay); the digests
they log must agree line by line."""
import importlib.util, importlib.machinery, json, os, re, subprocess, sys

SCENARIOS = [
    {"name": "selftest-commands", "pkg": "imap/command", "pkgname": "command", "entry": "VerifSelftestCommands",
     "files": ["zz_verif_selftest.go", "zz_verif_reader.go"], "params": {"quick": [{}]}},
    {"name": "selftest-messages", "pkg": "rfc822", "pkgname": "rfc822", "entry": "VerifSelftestMessages",
     "files": ["zz_verif_selftest.go"], "params": {"quick": [{}]}},
]


def run(root, repo, env):
    loader = importlib.machinery.SourceFileLoader("verifcheck", os.path.join(root, "check"))
    spec = importlib.util.spec_from_loader("verifcheck", loader)
    chk = importlib.util.module_from_spec(spec)
    loader.exec_module(chk)
    binp = chk.ensure_engine()
    work = os.path.join(root, ".work", "selftest-%d" % os.getpid())
    os.makedirs(work, exist_ok=True)
    rc = 0
    pat = re.compile(r'vsymLog: digest (".*")\s*$')
    for h in SCENARIOS:
        sp = {"id": "selftest", "repo": repo, "pkg": chk.MOD + "/" + h["pkg"], "entry": h["entry"], "overlay": chk.overlay_for(h, work),
              "param_sets": [{}], "out": os.path.join(work, h["name"] + ".out.json"), "workers": 1}
        spp = os.path.join(work, h["name"] + ".spec.json")
        json.dump(sp, open(spp, "w"))
        r = subprocess.run([binp, "-spec", spp], env=dict(env, VERIF_LOG="1"), stdout=subprocess.PIPE, stderr=subprocess.PIPE, text=True)
        eng = [m.group(1) for m in (pat.search(l) for l in r.stderr.splitlines()) if m]
        v = {"kind": "assert", "label": "selftest", "model": {}}
        d = chk.make_replay("selftest", h, sp, {"params": {}}, v, 0)
        os.environ["VERIF_LOG"] = "1"
        chk.GOENV["VERIF_LOG"] = "1"
        chk.run_replay(d)
        chk.GOENV.pop("VERIF_LOG", None)
        nat = [m.group(1) for m in (pat.search(l) for l in open(os.path.join(d, "replay.log")).read().splitlines()) if m]
        same = eng == nat and len(eng) > 0
        print("selftest %s: engine %d digests, native %d digests: %s" % (h["name"], len(eng), len(nat), "agree" if same else "DIFFER"))
        if not same:
            rc = 2
            for i in range(max(len(eng), len(nat))):
                a = eng[i] if i < len(eng) else None
                b = nat[i] if i < len(nat) else None
                if a != b:
                    print("  #%d engine=%s\n      native=%s" % (i, a, b))
    import shutil
    shutil.rmtree(work, ignore_errors=True)
    return rc
