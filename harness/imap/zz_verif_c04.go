package imap

import "time"

// VerifC04Generator: one step of EpochUIDValidityGenerator.Generate from an arbitrary state (last value) at an
// arbitrary instant.  On success the result is strictly greater than every earlier value (= lastUID, by induction
// over calls) and becomes the new lastUID; on error lastUID is unchanged.
// Bound: the catch-up loop runs lastUID-timestamp+1 times; gaps above `gap` are outside the bound.
func VerifC04Generator() {
	gap := vsymParam("gap")
	epoch := time.Unix(1675209600, 0) // 2023-02-01T00:00:00Z (DefaultEpochUIDValidityGenerator)
	g := NewEpochUIDValidityGenerator(epoch)
	last := vsymUint32("lastUID")
	g.lastUID = last
	// the clock: an arbitrary instant at or after the epoch
	t0 := time.Now()
	secs := uint64(t0.Sub(epoch).Seconds())
	// the next clock reading (inside Generate) is >= t0; it may be far beyond the 32-bit range
	vsymAssume(int64(last)-int64(secs) <= int64(gap))
	uid, err := g.Generate()
	if err != nil {
		vsymCover("generator-error")
		vsymAssert(g.lastUID == last, "a failed Generate leaves the generator state unchanged")
		return
	}
	vsymCover("generator-ok")
	vsymAssert(uint32(uid) > last, "UIDVALIDITY strictly greater than every earlier value")
	vsymAssert(g.lastUID == uint32(uid), "the generator remembers the value it handed out")
}

// VerifC04Incremental: the incremental generator and UID.Add.
func VerifC04Incremental() {
	g := NewIncrementalUIDValidityGenerator()
	c := vsymUint32("counter")
	vsymAssume(c < 4294967295)
	g.counter = c
	uid, err := g.Generate()
	vsymAssert(err == nil && uint32(uid) == c+1 && uint32(g.GetValue()) == c+1, "incremental generator hands out strictly increasing values")
	u := vsymUint32("uid")
	n := vsymUint32("n")
	vsymAssume(uint64(u)+uint64(n) <= 4294967295)
	vsymAssert(uint32(UID(u).Add(n)) == u+n && uint64(UID(u).Add(n)) == uint64(u)+uint64(n), "UID.Add does not wrap below the 32-bit limit")
}
