package main

// Cooperative goroutines (spec option "goroutines").  A `go` statement (or async.GoAnnotated) starts an interpreted
// goroutine that is backed by a real Go goroutine, but only one of them ever runs: control is handed over
// explicitly.  A child runs only when the main (harness) goroutine blocks or calls vsymSched(), and it runs until it
// blocks on a channel, mutex, condition variable, wait group or select (or ends).  The schedules explored are
// therefore "every other goroutine runs to quiescence at each hand-over point" - a subset of the real schedules,
// stated as a bound of the harnesses that use it.  All state (heap journal, path condition, decisions) is shared,
// which is sound because exactly one goroutine executes at any time.

import (
	"go/token"
)

type gor struct {
	id       int
	resume   chan bool     // scheduler -> child: true = continue, false = abort (path ended)
	parked   chan struct{} // child -> scheduler: parked or finished
	done     bool
	cond     func() bool // non-nil while parked on a blocking operation: true when it can proceed
	what     string
	panicVal interface{} // panic that ended the child (engine control flow or an uncaught target panic)
	top      *frame
}

type gorAbort struct{}

// spawn starts fn(args) as a goroutine; it does not run before the next hand-over point.
func (e *Exec) spawn(pos token.Pos, fn Value, args []Value) {
	if !e.P.cfg.Goroutines {
		e.unsupported("go statement (goroutines not enabled for this harness)")
	}
	g := &gor{id: len(e.gors) + 1, resume: make(chan bool), parked: make(chan struct{})}
	e.gors = append(e.gors, g)
	e.intrHit["goroutine-started(cooperative)"]++
	go func() {
		if ok := <-g.resume; !ok {
			g.done = true
			g.parked <- struct{}{}
			return
		}
		defer func() {
			if r := recover(); r != nil {
				if _, isAbort := r.(gorAbort); !isAbort {
					g.panicVal = r
				}
			}
			g.done = true
			g.parked <- struct{}{}
		}()
		e.top = nil
		e.call(nil, pos, fn, args)
	}()
}

// switchTo runs child g until it parks or ends (called by the main goroutine only).
func (e *Exec) switchTo(g *gor) {
	savedTop := e.top
	e.cur = g
	e.top = g.top
	g.cond = nil
	g.resume <- true
	<-g.parked
	g.top = e.top
	e.cur = nil
	e.top = savedTop
	if g.done && g.panicVal != nil {
		p := g.panicVal
		g.panicVal = nil
		panic(p)
	}
}

// runOthers lets every runnable child run until none is runnable; reports whether any ran.
func (e *Exec) runOthers() bool {
	ran := false
	for rounds := 0; rounds < 10000; rounds++ {
		progress := false
		for _, g := range e.gors {
			if g.done {
				continue
			}
			if g.cond == nil || g.cond() {
				e.switchTo(g)
				progress, ran = true, true
			}
		}
		if !progress {
			return ran
		}
	}
	panic(pathEnd{endBound, "goroutines keep making progress without quiescing (live-lock or scheduler bound)"})
}

// blockUntil is called by every blocking primitive whose condition does not hold.
func (e *Exec) blockUntil(cond func() bool, what string) {
	if !e.P.cfg.Goroutines {
		panic(pathEnd{endBlocked, what + " (single goroutine)"})
	}
	for !cond() {
		if e.cur == nil {
			if !e.runOthers() {
				// every goroutine is blocked: natively the harness hangs (or the runtime reports "all goroutines are
				// asleep"), so this is reported like a panic and replayed with a time limit
				if e.dec.pos >= len(e.dec.prefix) {
					e.stats.Obligations++
					e.oblLabels["no-dead-lock"]++
					e.reportIfSat(nil, e.ctx.True, "panic", "dead-lock: "+what+" while no goroutine can make progress")
				}
				panic(pathEnd{endBlocked, what + " (no goroutine can make progress: dead-lock)"})
			}
			continue
		}
		g := e.cur
		g.cond, g.what = cond, what
		g.top = e.top
		g.parked <- struct{}{}
		if ok := <-g.resume; !ok {
			panic(gorAbort{})
		}
	}
}

// killGoroutines ends every child at the end of a path.
func (e *Exec) killGoroutines() {
	for _, g := range e.gors {
		if !g.done {
			g.resume <- false
			<-g.parked
		}
	}
	e.gors = nil
	e.cur = nil
}
