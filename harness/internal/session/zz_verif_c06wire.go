package session

import (
	"context"
	"strings"

	"github.com/ProtonMail/gluon/events"
	"github.com/ProtonMail/gluon/imap"
	"github.com/ProtonMail/gluon/internal/backend"
	"github.com/ProtonMail/gluon/version"
)

// VerifC06Wire: a connector update delivered twice, seen by a client on the wire (real session loop, real backend
// appliers, real update queue): the first delivery is applied as described (a new message announces EXISTS, a flag
// change a FETCH with those flags, a deletion an EXPUNGE - at the client's next NOOP); the re-delivery is acknowledged
// without error and the client's next NOOP brings no EXISTS / EXPUNGE / FETCH line; what FETCH 1:* (UID FLAGS) answers is
// the same before and after the re-delivery.
func VerifC06Wire() {
	be := backend.VerifNewBackendUsers()
	conn := &verifPipeConn{in: make(chan []byte, 4)}
	s := New(conn, be, 1, version.Info{}, nil, make(chan events.Event, 256), 0, nil)
	go func() { _ = s.serve(context.Background()) }()
	vsymAssert(c1Tagged(conn.send("l LOGIN alice pw1"), "l", "OK"), "LOGIN is answered OK")
	vsymAssert(c1Tagged(conn.send("s SELECT INBOX"), "s", "OK"), "SELECT is answered OK")
	var up imap.Update
	kind := vsymChoice("update", 4)
	mk := func() imap.Update {
		switch kind {
		case 0:
			return backend.VerifNewMessageCreated("rm-conn-1", backend.VerifLit2, "mb-inbox-alice")
		case 1:
			return imap.NewMessageFlagsUpdated("rm-alice", imap.NewFlagSet(imap.FlagSeen, imap.FlagFlagged))
		case 2:
			return imap.NewMessagesDeleted("rm-alice")
		}
		return imap.NewMessageMailboxesUpdated("rm-alice", []imap.MailboxID{"mb-inbox-alice"}, imap.NewFlagSet(imap.FlagSeen))
	}
	untagged := func(lines []string) (n int, all string) {
		for _, l := range lines {
			if k := c1DecodeLine(l).Kind; k == 1 || k == 2 || k == 3 {
				n++
				all += l + "\n"
			}
		}
		return
	}
	fetchAll := func() string {
		var sb strings.Builder
		for _, l := range conn.send("p UID FETCH 1:* (UID FLAGS)") {
			if strings.HasPrefix(l, "* ") && strings.Contains(l, "FETCH") {
				sb.WriteString(strings.ReplaceAll(l, "\\Recent", "") + "\n")
			}
		}
		return sb.String()
	}
	up = mk()
	vsymAssert(backend.VerifApplyUpdate(be, "id-alice", up) == nil, "the update applies")
	vsymSched()
	n1, first := untagged(conn.send("n NOOP"))
	switch kind {
	case 0:
		vsymAssert(strings.Contains(first, "2 EXISTS"), "a created message is announced with EXISTS")
	case 1, 3:
		vsymAssert(strings.Contains(first, "1 FETCH") && strings.Contains(strings.ToLower(first), "\\seen"), "a flag change is announced with a FETCH carrying the new flags")
	case 2:
		vsymAssert(strings.Contains(first, "1 EXPUNGE"), "a deletion is announced with EXPUNGE")
	}
	vsymAssert(n1 > 0, "the first delivery is visible to the client")
	before := fetchAll()
	// the same update once more (a fresh object describing the same change, as a connector that re-sends would build it)
	vsymAssert(backend.VerifApplyUpdate(be, "id-alice", mk()) == nil, "the re-delivered update is acknowledged without error")
	vsymSched()
	n2, second := untagged(conn.send("n NOOP"))
	vsymCover("redelivered")
	vsymAssert(n2 == 0 && second == "", "a re-delivered update makes the session send no EXISTS / EXPUNGE / FETCH")
	vsymAssert(fetchAll() == before, "the mailbox a client sees is the same before and after the re-delivery")
}
