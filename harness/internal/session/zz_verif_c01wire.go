package session

import (
	"context"
	"io"
	"net"
	"strings"

	"github.com/ProtonMail/gluon/events"
	"github.com/ProtonMail/gluon/imap"
	"github.com/ProtonMail/gluon/internal/backend"
	"github.com/ProtonMail/gluon/version"
)

// verifPipeConn: a connection whose client side is the harness: lines are pushed into `in`, a Read blocks until
// something was pushed (hand-over point of the goroutine model), everything written is recorded line by line.
type verifPipeConn struct {
	net.Conn
	in    chan []byte
	buf   []byte
	lines []string
}

func (c *verifPipeConn) Read(b []byte) (int, error) {
	if len(c.buf) == 0 {
		data, ok := <-c.in
		if !ok {
			return 0, io.EOF
		}
		c.buf = data
	}
	n := copy(b, c.buf)
	c.buf = c.buf[n:]
	return n, nil
}
func (c *verifPipeConn) Write(b []byte) (int, error) {
	for _, l := range strings.Split(strings.TrimRight(string(b), "\r\n"), "\r\n") {
		c.lines = append(c.lines, l)
	}
	return len(b), nil
}
func (c *verifPipeConn) Close() error { return nil }

// send writes one command line and returns what the server wrote in answer (after every goroutine has come to rest).
func (c *verifPipeConn) send(line string) []string {
	start := len(c.lines)
	c.in <- []byte(line + "\r\n")
	vsymSched()
	return c.lines[start:len(c.lines):len(c.lines)]
}

func c1Tagged(lines []string, tag, kind string) bool {
	for _, l := range lines {
		if strings.HasPrefix(l, tag+" "+kind) {
			return true
		}
	}
	return false
}

// VerifC01Wire: two clients of one user on the wire, each served by the real Session.serve loop (command reader
// goroutine, parser, handlers, response rendering, the real update queue between them - cooperative goroutine model).
// The observer's client keeps the mirror a client can build from the untagged EXISTS / EXPUNGE / FETCH lines it
// receives; after every command of the observer it asks FETCH 1:* (UID FLAGS) on the wire and compares the answer
// with the mirror (count, sequence number -> UID, flags), then learns from it.  The other client stores flags,
// expunges and copies in between (its changes reach the observer's session before the observer's next command).
func VerifC01Wire() {
	k := vsymParam("k")
	be := backend.VerifNewBackendUsers()
	ctx := context.Background()
	mk := func(id int) *verifPipeConn {
		conn := &verifPipeConn{in: make(chan []byte, 4)}
		s := New(conn, be, id, version.Info{}, nil, make(chan events.Event, 256), 0, nil)
		go func() { _ = s.serve(ctx) }()
		return conn
	}
	oc, ac := mk(1), mk(2)
	for _, c := range []*verifPipeConn{oc, ac} {
		vsymAssert(c1Tagged(c.send("l LOGIN alice pw1"), "l", "OK"), "LOGIN is answered OK")
		vsymAssert(c1Tagged(c.send("s SELECT INBOX"), "s", "OK"), "SELECT is answered OK")
	}
	mirror := &c1Mirror{}
	for _, l := range oc.lines {
		mirror.applyDecoded(c1DecodeLine(l)) // the EXISTS of SELECT
	}
	// C05 on the wire: removals the other client committed that the observer has not been told yet
	pendingRemovals := 0
	noExpunge := func(ans []string, tag string) {
		for _, l := range ans {
			vsymAssert(c1DecodeLine(l).Kind != 2, "no EXPUNGE line while a FETCH or STORE is answered")
		}
		if pendingRemovals > 0 {
			vsymCover("wire-held-back")
			vsymAssert(c1Tagged(ans, tag, "OK [EXPUNGEISSUED]"), "a FETCH or STORE that holds a removal back says [EXPUNGEISSUED] in its tagged OK")
		}
	}
	// probe on the wire
	probe := func() {
		ans := oc.send("p FETCH 1:* (UID FLAGS)")
		if len(mirror.ents) > 0 {
			noExpunge(ans, "p")
		}
		vsymAssert(c1Tagged(ans, "p", "OK") || len(mirror.ents) == 0, "FETCH 1:* is answered")
		n := 0
		for _, l := range ans {
			d := c1DecodeLine(l)
			if d.Kind == 3 && d.HasUID && d.HasFlags && n < len(mirror.ents) && int(d.N) == n+1 {
				// the server's answer for message n+1: compare with what the client believed, then learn
				e := &mirror.ents[n]
				if e.uidKnown {
					vsymAssert(e.uid == d.UID, "sequence number still maps to the UID the client learned")
				}
				if e.flagsKnown {
					vsymAssert(e.flags == c1Mask(d.Flags), "flags the client learned equal the flags the server answers")
				}
				if n > 0 && mirror.ents[n-1].uidKnown {
					vsymAssert(mirror.ents[n-1].uid < d.UID, "UIDs strictly ascending in sequence order")
				}
				*e = c1Ent{uidKnown: true, uid: d.UID, flagsKnown: true, flags: c1Mask(d.Flags)}
				n++
				continue
			}
			mirror.applyDecoded(d)
		}
		vsymAssert(n == len(mirror.ents) || n == 0 && len(mirror.ents) == 0, "the server answers for exactly the messages it announced (count)")
		vsymCover("wire-probed")
	}
	probe()
	flagNames := []string{imap.FlagSeen, imap.FlagDeleted, imap.FlagFlagged}
	feed := func(lines []string) {
		for _, l := range lines {
			mirror.applyDecoded(c1DecodeLine(l))
		}
	}
	for step := 0; step < k; step++ {
		switch vsymChoice("event", 6) {
		case 0: // observer: NOOP
			feed(oc.send("n NOOP"))
			pendingRemovals = 0
			probe()
		case 1: // observer: STORE seq +/-FLAGS (flag)
			if len(mirror.ents) == 0 {
				vsymAssume(false)
			}
			seq := 1 + vsymChoice("storeSeq", len(mirror.ents))
			ans := oc.send("t STORE " + string(rune('0'+seq)) + " " + []string{"+", "-"}[vsymChoice("storeSign", 2)] + "FLAGS (" + flagNames[vsymChoice("storeFlag", 3)] + ")")
			noExpunge(ans, "t")
			feed(ans)
			probe()
		case 2: // observer: EXPUNGE
			feed(oc.send("e EXPUNGE"))
			pendingRemovals = 0
			probe()
		case 3: // the other client: STORE 1 +/-FLAGS (flag)
			ac.send("b STORE 1 " + []string{"+", "-"}[vsymChoice("actSign", 2)] + "FLAGS (" + flagNames[vsymChoice("actFlag", 3)] + ")")
		case 4: // the other client: delete and expunge its first message
			ac.send("b STORE 1 +FLAGS.SILENT (\\Deleted)")
			for _, l := range ac.send("b EXPUNGE") {
				if c1DecodeLine(l).Kind == 2 {
					pendingRemovals++
				}
			}
		case 5: // the other client: COPY 1 INBOX
			ac.send("b COPY 1 INBOX")
		}
	}
	feed(oc.send("n NOOP"))
	pendingRemovals = 0
	probe()
	// C02 on the wire: what the long-lived session answers after NOOP is what a fresh EXAMINE session answers
	fc := mk(3)
	vsymAssert(c1Tagged(fc.send("l LOGIN alice pw1"), "l", "OK"), "LOGIN is answered OK")
	vsymAssert(c1Tagged(fc.send("s EXAMINE INBOX"), "s", "OK"), "EXAMINE is answered OK")
	n := 0
	for _, l := range fc.send("f FETCH 1:* (UID FLAGS)") {
		d := c1DecodeLine(l)
		if d.Kind != 3 || !d.HasUID || !d.HasFlags {
			continue
		}
		if n < len(mirror.ents) {
			vsymAssert(mirror.ents[n].uid == d.UID, "after NOOP the session shows the same UIDs in the same order as a fresh session")
			vsymAssert(mirror.ents[n].flags == c1Mask(d.Flags), "after NOOP the session shows the same flags as a fresh session (ignoring \\Recent)")
		}
		n++
	}
	vsymAssert(n == len(mirror.ents), "after NOOP the session shows exactly the messages a fresh session sees")
	vsymCover("wire-fresh-compared")
	vsymAssert(c1Tagged(oc.send("z LOGOUT"), "z", "OK"), "LOGOUT is answered")
}

// verifRawConn additionally keeps every write as it was made (literals contain line breaks).
type verifRawConn struct {
	verifPipeConn
	raw []string
}

func (c *verifRawConn) Write(b []byte) (int, error) {
	c.raw = append(c.raw, string(b))
	return c.verifPipeConn.Write(b)
}

// c13Literal extracts the literal that follows "<item> {n}\r\n" in a FETCH response as a client does: it reads n
// from the braces and takes the next n bytes.
func c13Literal(resp, item string) (string, bool) {
	i := strings.Index(resp, item+" {")
	if i < 0 {
		return "", false
	}
	rest := resp[i+len(item)+2:]
	j := strings.Index(rest, "}\r\n")
	if j < 0 {
		return "", false
	}
	n := 0
	for _, c := range rest[:j] {
		if c < '0' || c > '9' {
			return "", false
		}
		n = n*10 + int(c-'0')
	}
	body := rest[j+3:]
	if n > len(body) {
		return "", false
	}
	return body[:n], true
}

// VerifC13Wire: APPEND and FETCH on the wire through the real session loop: a message with g arbitrary body bytes is
// appended with a synchronising literal (the continuation request is awaited), the mailbox selected, and
// BODY.PEEK[] / BODY.PEEK[HEADER] / BODY.PEEK[TEXT] / RFC822.SIZE / a partial are fetched: read the way a client reads
// a response ({n} then n bytes) they are exactly the bytes that were appended (with the server's internal-ID header
// line as the only addition, in front of the first header field).
func VerifC13Wire() {
	g := vsymParam("g")
	head := "To: a@b.c\r\nFrom: d@e.f\r\nDate: Mon, 7 Feb 1994 21:52:25 -0800\r\nSubject: s\r\n\r\n"
	body := vsymBytes("body", g)
	lit := append([]byte(head), body...)
	be := backend.VerifNewBackendUsers()
	conn := &verifRawConn{verifPipeConn: verifPipeConn{in: make(chan []byte, 4)}}
	s := New(conn, be, 1, version.Info{}, nil, make(chan events.Event, 256), 0, nil)
	go func() { _ = s.serve(context.Background()) }()
	vsymAssert(c1Tagged(conn.send("l LOGIN alice pw1"), "l", "OK"), "LOGIN is answered OK")
	num := func(n int) string {
		if n == 0 {
			return "0"
		}
		var d []byte
		for n > 0 {
			d = append([]byte{byte('0' + n%10)}, d...)
			n /= 10
		}
		return string(d)
	}
	cont := conn.send("a APPEND INBOX {" + num(len(lit)) + "}")
	vsymAssert(len(cont) == 1 && strings.HasPrefix(cont[0], "+"), "a synchronising literal is answered by a continuation request")
	start := len(conn.lines)
	conn.in <- append(append([]byte(nil), lit...), '\r', '\n')
	vsymSched()
	vsymAssert(c1Tagged(conn.lines[start:], "a", "OK"), "APPEND is answered OK")
	vsymAssert(c1Tagged(conn.send("s SELECT INBOX"), "s", "OK"), "SELECT is answered OK")
	r0 := len(conn.raw)
	vsymAssert(c1Tagged(conn.send("f FETCH 2 (RFC822.SIZE BODY.PEEK[] BODY.PEEK[HEADER] BODY.PEEK[TEXT] BODY.PEEK[]<3.5>)"), "f", "OK"), "FETCH is answered OK")
	resp := strings.Join(conn.raw[r0:], "")
	vsymCover("fetched")
	full, ok := c13Literal(resp, "BODY[]")
	vsymAssert(ok, "BODY[] is returned as a literal whose announced length is available")
	if !ok {
		return
	}
	// the only change the server makes: its internal-ID header line in front of the first header field
	vsymAssert(strings.HasSuffix(full, string(lit)), "BODY[] ends with exactly the appended bytes")
	prefix := full[:len(full)-len(lit)]
	vsymAssert(prefix == "" || (strings.HasPrefix(prefix, "X-Pm-Gluon-Id: ") && strings.HasSuffix(prefix, "\r\n") && strings.Count(prefix, "\n") == 1), "the only addition is one internal-ID header line")
	hdr, ok1 := c13Literal(resp, "BODY[HEADER]")
	txt, ok2 := c13Literal(resp, "BODY[TEXT]")
	vsymAssert(ok1 && ok2, "BODY[HEADER] and BODY[TEXT] are returned")
	if ok1 && ok2 {
		vsymAssert(hdr+txt == full, "BODY[HEADER] followed by BODY[TEXT] is BODY[]")
		vsymAssert(txt == string(body), "BODY[TEXT] is exactly the appended body")
	}
	part, ok3 := c13Literal(resp, "BODY[]<3>")
	vsymAssert(ok3, "the partial is returned")
	if ok3 {
		hi := 8
		if hi > len(full) {
			hi = len(full)
		}
		vsymAssert(part == full[3:hi], "BODY[]<3.5> is bytes 3..7 of BODY[]")
	}
	vsymAssert(strings.Contains(resp, "RFC822.SIZE "+num(len(full))+" ") || strings.Contains(resp, "RFC822.SIZE "+num(len(full))+")"), "RFC822.SIZE is the length of BODY[]")
}

// VerifC20Wire: APPEND on the wire when the remote side refuses the message: the command is answered NO, and the exact
// bytes are kept in the recovery mailbox - it shows up in LIST, can be selected, holds one message, and its BODY[] (read
// as a client reads a literal) ends with exactly the appended bytes.  A second, accepted APPEND is answered OK and
// found in INBOX.
func VerifC20Wire() {
	g := vsymParam("g")
	head := "To: a@b.c\r\nFrom: d@e.f\r\nDate: Mon, 7 Feb 1994 21:52:25 -0800\r\nSubject: s\r\n\r\n"
	lit := append([]byte(head), vsymBytes("body", g)...)
	be := backend.VerifNewBackendUsers()
	conn := &verifRawConn{verifPipeConn: verifPipeConn{in: make(chan []byte, 4)}}
	s := New(conn, be, 1, version.Info{}, nil, make(chan events.Event, 256), 0, nil)
	go func() { _ = s.serve(context.Background()) }()
	vsymAssert(c1Tagged(conn.send("l LOGIN alice pw1"), "l", "OK"), "LOGIN is answered OK")
	num := func(n int) string {
		var d []byte
		for n > 0 {
			d = append([]byte{byte('0' + n%10)}, d...)
			n /= 10
		}
		return string(d)
	}
	appendLit := func(tag string) []string {
		cont := conn.send(tag + " APPEND INBOX {" + num(len(lit)) + "}")
		vsymAssert(len(cont) == 1 && strings.HasPrefix(cont[0], "+"), "a synchronising literal is answered by a continuation request")
		start := len(conn.lines)
		conn.in <- append(append([]byte(nil), lit...), '\r', '\n')
		vsymSched()
		return conn.lines[start:len(conn.lines):len(conn.lines)]
	}
	backend.VerifCreateFails = 1
	refused := appendLit("a")
	backend.VerifCreateFails = 0
	vsymAssert(c1Tagged(refused, "a", "NO"), "an APPEND the remote side refuses is answered NO")
	listed := false
	for _, l := range conn.send("i LIST \"\" \"*\"") {
		if strings.HasPrefix(l, "* LIST") && strings.Contains(l, "Recovered Messages") {
			listed = true
		}
	}
	vsymAssert(listed, "the recovery mailbox is listed once it holds a message")
	sel := conn.send("s SELECT \"Recovered Messages\"")
	vsymAssert(c1Tagged(sel, "s", "OK"), "the recovery mailbox can be selected")
	one := false
	for _, l := range sel {
		if l == "* 1 EXISTS" {
			one = true
		}
	}
	vsymAssert(one, "the recovery mailbox holds exactly the refused message")
	r0 := len(conn.raw)
	vsymAssert(c1Tagged(conn.send("f FETCH 1 (BODY.PEEK[])"), "f", "OK"), "FETCH is answered OK")
	full, ok := c13Literal(strings.Join(conn.raw[r0:], ""), "BODY[]")
	vsymAssert(ok && strings.HasSuffix(full, string(lit)), "the recovered message is byte for byte the message handed to APPEND")
	vsymCover("recovered-fetched")
	// the same bytes again, accepted this time
	vsymAssert(c1Tagged(appendLit("b"), "b", "OK"), "an accepted APPEND is answered OK")
	got := conn.send("t SELECT INBOX")
	two := false
	for _, l := range got {
		if l == "* 2 EXISTS" {
			two = true
		}
	}
	vsymAssert(two, "the accepted message is in the mailbox it was appended to")
}
