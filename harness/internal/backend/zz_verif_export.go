package backend

// VerifNewBackend returns a Backend that only knows its hierarchy delimiter (for session-level harnesses).
func VerifNewBackend(delim string) *Backend {
	return &Backend{delim: delim}
}
