#!/bin/bash
# usage: tools/import_seed.sh <agent-out-dir>/<k> <seed-id>   -- copies patch.diff, demo_test.go, notes.json into seeded/<seed-id>/
set -eu
src=$1; id=$2
mkdir -p /verif/seeded/$id
cp "$src/patch.diff" "$src/demo_test.go" /verif/seeded/$id/
cp "$src/notes.json" /verif/seeded/$id/notes.json
echo imported $id
