package session

import (
	"context"
	"strings"

	"github.com/ProtonMail/gluon/events"
	"github.com/ProtonMail/gluon/internal/backend"
	"github.com/ProtonMail/gluon/version"
)

// VerifC18WireIsolation: two users on one server, each with a client on the wire (real session loops).  alice issues k
// commands that change her account (CREATE, APPEND, STORE flags, delete + EXPUNGE, COPY, RENAME); after each of them
// everything bob's client can see - his LIST, the message count of his INBOX, UID and flags of his message - is what
// it was before, and bob cannot select what alice created.
func VerifC18WireIsolation() {
	k := vsymParam("k")
	be := backend.VerifNewBackendUsers()
	ctx := context.Background()
	mk := func(id int) *verifPipeConn {
		conn := &verifPipeConn{in: make(chan []byte, 4)}
		s := New(conn, be, id, version.Info{}, nil, make(chan events.Event, 256), 0, nil)
		go func() { _ = s.serve(ctx) }()
		return conn
	}
	ac, bc := mk(1), mk(2)
	vsymAssert(c1Tagged(ac.send("l LOGIN alice pw1"), "l", "OK"), "alice logs in")
	vsymAssert(c1Tagged(bc.send("l LOGIN bob pw2"), "l", "OK"), "bob logs in")
	vsymAssert(c1Tagged(ac.send("s SELECT INBOX"), "s", "OK"), "alice selects her INBOX")
	vsymAssert(c1Tagged(bc.send("s SELECT INBOX"), "s", "OK"), "bob selects his INBOX")
	// everything bob can see, as one string
	bobView := func() string {
		var sb strings.Builder
		for _, l := range bc.send("i LIST \"\" \"*\"") {
			if strings.HasPrefix(l, "* ") {
				sb.WriteString(l + "\n")
			}
		}
		for _, l := range bc.send("u STATUS INBOX (MESSAGES UIDNEXT UNSEEN)") {
			if strings.HasPrefix(l, "* STATUS") {
				sb.WriteString(l + "\n")
			}
		}
		for _, l := range bc.send("f UID FETCH 1:* (UID FLAGS)") {
			if strings.HasPrefix(l, "* ") {
				sb.WriteString(l + "\n")
			}
		}
		return sb.String()
	}
	before := bobView()
	vsymAssert(strings.Contains(before, "INBOX") && strings.Contains(before, "FETCH"), "bob sees his own mailbox and message")
	lit := "To: a@b.c\r\nFrom: d@e.f\r\nDate: Mon, 7 Feb 1994 21:52:25 -0800\r\nSubject: s\r\n\r\nx"
	for step := 0; step < k; step++ {
		switch vsymChoice("aliceDoes", 6) {
		case 0:
			ac.send("c CREATE private")
		case 1:
			cont := ac.send("c APPEND INBOX {" + string(rune('0'+len(lit)/10)) + string(rune('0'+len(lit)%10)) + "}")
			if len(cont) == 1 && strings.HasPrefix(cont[0], "+") {
				ac.in <- []byte(lit + "\r\n")
				vsymSched()
			}
		case 2:
			ac.send("c STORE 1 +FLAGS (\\Seen \\Flagged)")
		case 3:
			ac.send("c STORE 1 +FLAGS.SILENT (\\Deleted)")
			ac.send("c EXPUNGE")
		case 4:
			ac.send("c COPY 1:* INBOX")
		case 5:
			ac.send("c RENAME INBOX moved")
		}
		vsymCover("alice-acted")
		after := bobView()
		vsymAssert(after == before, "nothing bob's client can see changes when alice changes her account")
		vsymAssert(!c1Tagged(bc.send("x EXAMINE private"), "x", "OK"), "bob cannot open a mailbox alice created")
		vsymAssert(c1Tagged(bc.send("y SELECT INBOX"), "y", "OK"), "bob can still select his INBOX")
		before = bobView() // (re-selecting clears \Recent: take the view again)
	}
}
