package main

// Truth tables of single-variable terms: for a term that depends on one variable of at most 8 bits the value for
// every assignment is computed bottom-up in one pass.  Tables of Bool terms are cached for the life of the worker
// (terms are immutable and hash-consed); tables of bit-vector sub-terms live only during one computation.

type bvTable [256]uint64

func (e *Exec) truthTable(t *Term, v *Term) [4]uint64 {
	if r, ok := e.ttCache[t]; ok {
		return r
	}
	memo := map[*Term]*bvTable{}
	r := e.boolTable(t, v, memo)
	return r
}

func (e *Exec) boolTable(t *Term, v *Term, memo map[*Term]*bvTable) [4]uint64 {
	if r, ok := e.ttCache[t]; ok {
		return r
	}
	n := nvals(v)
	var r [4]uint64
	set := func(k int) { r[k>>6] |= 1 << (uint(k) & 63) }
	full := func() [4]uint64 {
		var f [4]uint64
		for k := 0; k < n; k++ {
			f[k>>6] |= 1 << (uint(k) & 63)
		}
		return f
	}
	switch t.Op {
	case OpConst:
		if t.K != 0 {
			r = full()
		}
	case OpVar: // the Bool variable itself: true for the value 1
		set(1)
	case OpNot:
		a := e.boolTable(t.A[0], v, memo)
		f := full()
		for i := range r {
			r[i] = ^a[i] & f[i]
		}
	case OpAnd:
		a, b := e.boolTable(t.A[0], v, memo), e.boolTable(t.A[1], v, memo)
		for i := range r {
			r[i] = a[i] & b[i]
		}
	case OpOr:
		a, b := e.boolTable(t.A[0], v, memo), e.boolTable(t.A[1], v, memo)
		for i := range r {
			r[i] = a[i] | b[i]
		}
	case OpIte:
		c, a, b := e.boolTable(t.A[0], v, memo), e.boolTable(t.A[1], v, memo), e.boolTable(t.A[2], v, memo)
		for i := range r {
			r[i] = c[i]&a[i] | ^c[i]&b[i]
		}
		f := full()
		for i := range r {
			r[i] &= f[i]
		}
	case OpEq:
		if t.A[0].W == 0 {
			a, b := e.boolTable(t.A[0], v, memo), e.boolTable(t.A[1], v, memo)
			f := full()
			for i := range r {
				r[i] = ^(a[i] ^ b[i]) & f[i]
			}
		} else {
			a, b := e.bvTab(t.A[0], v, memo), e.bvTab(t.A[1], v, memo)
			for k := 0; k < n; k++ {
				if a[k] == b[k] {
					set(k)
				}
			}
		}
	case OpUlt, OpUle, OpSlt, OpSle:
		a, b := e.bvTab(t.A[0], v, memo), e.bvTab(t.A[1], v, memo)
		w := t.A[0].W
		for k := 0; k < n; k++ {
			var ok bool
			switch t.Op {
			case OpUlt:
				ok = a[k] < b[k]
			case OpUle:
				ok = a[k] <= b[k]
			case OpSlt:
				ok = sext64(a[k], w) < sext64(b[k], w)
			case OpSle:
				ok = sext64(a[k], w) <= sext64(b[k], w)
			}
			if ok {
				set(k)
			}
		}
	default:
		panic("boolTable: not a Bool operator")
	}
	e.ttCache[t] = r
	return r
}

func (e *Exec) bvTab(t *Term, v *Term, memo map[*Term]*bvTable) *bvTable {
	if r, ok := memo[t]; ok {
		return r
	}
	n := nvals(v)
	r := new(bvTable)
	switch t.Op {
	case OpConst:
		for k := 0; k < n; k++ {
			r[k] = t.K
		}
	case OpVar:
		for k := 0; k < n; k++ {
			r[k] = uint64(k)
		}
	case OpIte:
		c := e.boolTable(t.A[0], v, memo)
		a, b := e.bvTab(t.A[1], v, memo), e.bvTab(t.A[2], v, memo)
		for k := 0; k < n; k++ {
			if c[k>>6]&(1<<(uint(k)&63)) != 0 {
				r[k] = a[k]
			} else {
				r[k] = b[k]
			}
		}
	case OpBNot:
		a := e.bvTab(t.A[0], v, memo)
		m := mask(t.W)
		for k := 0; k < n; k++ {
			r[k] = ^a[k] & m
		}
	case OpNeg:
		a := e.bvTab(t.A[0], v, memo)
		m := mask(t.W)
		for k := 0; k < n; k++ {
			r[k] = -a[k] & m
		}
	case OpExtract:
		a := e.bvTab(t.A[0], v, memo)
		hi, lo := uint8(t.K>>8), uint8(t.K&0xff)
		m := mask(hi - lo + 1)
		for k := 0; k < n; k++ {
			r[k] = (a[k] >> lo) & m
		}
	case OpZext:
		return e.bvTab(t.A[0], v, memo)
	case OpSext:
		a := e.bvTab(t.A[0], v, memo)
		m := mask(t.W)
		for k := 0; k < n; k++ {
			r[k] = uint64(sext64(a[k], t.A[0].W)) & m
		}
	case OpConcat:
		a, b := e.bvTab(t.A[0], v, memo), e.bvTab(t.A[1], v, memo)
		for k := 0; k < n; k++ {
			r[k] = a[k]<<t.A[1].W | b[k]
		}
	default:
		a, b := e.bvTab(t.A[0], v, memo), e.bvTab(t.A[1], v, memo)
		for k := 0; k < n; k++ {
			x, y := a[k], b[k]
			if (t.Op == OpSdiv || t.Op == OpSrem) && y == 0 {
				if t.Op == OpSrem {
					r[k] = x
				} else if sext64(x, t.W) < 0 {
					r[k] = 1
				} else {
					r[k] = mask(t.W)
				}
				continue
			}
			r[k], _ = foldBin(t.Op, x, y, t.W)
		}
	}
	memo[t] = r
	return r
}
