#!/bin/bash
# usage: tools/confirm_seed.sh <seed-dir> <pkgdir-of-demo> [test-run-regex]
# Confirms in a scratch worktree: patch applies + builds, suite passes with the patch, demo fails with / passes without.
# The integration tests in ./tests are timing dependent (they fail or hang at similar rates on the unpatched tree
# when the machine is loaded): a test that failed or was not reached in the full run is re-run on its own up to 3 times.
set -u
seed=$(realpath "$1"); pkg=$2; run=${3:-.}
export GOFLAGS=-mod=mod GOPROXY=off GOSUMDB=off GOTOOLCHAIN=local
wt=/tmp/confirm_$$
L=/tmp/confirm_logs_$$; mkdir -p $L
git -C /repo worktree add -q "$wt" HEAD || exit 2
cd "$wt"
res="seed=$(basename $seed)"
cp "$seed/demo_test.go" "$pkg/zz_seed_demo_test.go"
if go test -count=1 -timeout 300s -run "$run" ./$pkg/ >$L/clean.log 2>&1; then res="$res demo_without_patch=PASS"; else res="$res demo_without_patch=FAIL"; fi
rm "$pkg/zz_seed_demo_test.go"
if git apply "$seed/patch.diff"; then res="$res apply=ok"; else res="$res apply=FAILED"; fi
if go build ./... >$L/build.log 2>&1; then res="$res build=ok"; else res="$res build=FAILED"; fi
# everything but ./tests
others=$(go list ./... | grep -v '/tests$')
if go test -count=1 -timeout 900s $others >$L/others.log 2>&1; then res="$res unit_pkgs=PASS"; else res="$res unit_pkgs=FAIL($(grep -E '^(--- FAIL|FAIL)' $L/others.log | head -5 | tr '\n' ' '))"; fi
# ./tests with per-test retry
go test -c -o $L/tests.bin ./tests >$L/testsbuild.log 2>&1
all=$(cd tests && $L/tests.bin -test.list '.*' 2>/dev/null | grep -E '^Test')
(cd tests && timeout 600 $L/tests.bin -test.count=1 -test.v -test.timeout 500s >$L/tests1.log 2>&1)
passed=$(grep -E '^--- PASS' $L/tests1.log | awk '{print $3}' | sort -u)
todo=$(comm -23 <(echo "$all" | sort -u) <(echo "$passed"))
bad=""
for t in $todo; do
  ok=0
  for k in 1 2 3; do
    if (cd tests && timeout 120 $L/tests.bin -test.count=1 -test.run "^$t\$" -test.timeout 100s >$L/retry.log 2>&1); then ok=1; break; fi
  done
  [ $ok = 1 ] || bad="$bad $t"
done
n_all=$(echo "$all" | wc -l); n_retry=$(echo "$todo" | wc -w)
if [ -z "$bad" ]; then res="$res tests_pkg=PASS($n_all tests, $n_retry retried individually)"; else res="$res tests_pkg=FAIL($bad)"; fi
cp "$seed/demo_test.go" "$pkg/zz_seed_demo_test.go"
if go test -count=1 -timeout 300s -run "$run" ./$pkg/ >$L/patched.log 2>&1; then res="$res demo_with_patch=PASS"; else res="$res demo_with_patch=FAIL"; fi
cd /; git -C /repo worktree remove --force "$wt"; rm -rf $L
echo "$res"
