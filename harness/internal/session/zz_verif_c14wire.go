package session

import (
	"context"
	"sort"
	"strings"

	"github.com/ProtonMail/gluon/events"
	"github.com/ProtonMail/gluon/internal/backend"
	"github.com/ProtonMail/gluon/version"
)

// VerifC14Wire: the mailbox namespace as a client sees it on the wire (real session loop): histories of k CREATE /
// DELETE / RENAME over a small pool of names against the reference hierarchy (DESIGN appendix A.5): each command is
// answered OK or NO as the model says, and after each of them `LIST "" "*"` shows exactly INBOX, the existing names and
// their superiors.
func VerifC14Wire() {
	k := vsymParam("k")
	be := backend.VerifNewBackendUsers()
	conn := &verifPipeConn{in: make(chan []byte, 4)}
	s := New(conn, be, 1, version.Info{}, nil, make(chan events.Event, 256), 0, nil)
	go func() { _ = s.serve(context.Background()) }()
	vsymAssert(c1Tagged(conn.send("l LOGIN alice pw1"), "l", "OK"), "LOGIN is answered OK")
	exists := map[string]bool{}
	pool := []string{"a", "a/b", "c"}
	targets := []string{"d", "a/e"}
	visible := func() []string {
		set := map[string]bool{"INBOX": true}
		for n := range exists {
			set[n] = true
			for i := 0; i < len(n); i++ {
				if n[i] == '/' {
					set[n[:i]] = true
				}
			}
		}
		var out []string
		for n := range set {
			out = append(out, n)
		}
		sort.Strings(out)
		return out
	}
	listed := func() []string {
		var out []string
		for _, l := range conn.send("i LIST \"\" \"*\"") {
			if strings.HasPrefix(l, "* LIST") {
				f := strings.Split(l, "\"")
				if len(f) >= 4 && f[len(f)-2] != "Recovered Messages" {
					out = append(out, f[len(f)-2])
				}
			}
		}
		sort.Strings(out)
		return out
	}
	for step := 0; step < k; step++ {
		var ans []string
		wantOK := false
		switch vsymChoice("op", 3) {
		case 0:
			x := pool[vsymChoice("name", len(pool))]
			ans = conn.send("c CREATE " + x)
			if !exists[x] {
				wantOK = true
				exists[x] = true
				for i := 0; i < len(x); i++ {
					if x[i] == '/' {
						exists[x[:i]] = true
					}
				}
			}
		case 1:
			x := pool[vsymChoice("name", len(pool))]
			ans = conn.send("c DELETE " + x)
			if exists[x] {
				wantOK = true
				delete(exists, x)
			}
		case 2:
			x := pool[vsymChoice("name", len(pool))]
			y := targets[vsymChoice("target", len(targets))]
			ans = conn.send("c RENAME " + x + " " + y)
			if exists[x] && !exists[y] && !strings.HasPrefix(y, x+"/") {
				wantOK = true
				moved := map[string]string{}
				for n := range exists {
					if n == x {
						moved[n] = y
					} else if strings.HasPrefix(n, x+"/") {
						moved[n] = y + n[len(x):]
					}
				}
				for from, to := range moved {
					delete(exists, from)
					exists[to] = true
				}
				for i := 0; i < len(y); i++ {
					if y[i] == '/' {
						exists[y[:i]] = true
					}
				}
			}
		}
		if wantOK {
			vsymCover("namespace-accepted")
			vsymAssert(c1Tagged(ans, "c", "OK"), "a command the hierarchy permits is answered OK")
		} else {
			vsymCover("namespace-refused")
			vsymAssert(c1Tagged(ans, "c", "NO"), "a command the hierarchy forbids is answered NO")
		}
		got, want := listed(), visible()
		vsymAssert(len(got) == len(want), "LIST shows exactly INBOX, the existing mailboxes and their superiors (count)")
		if len(got) == len(want) {
			for i := range want {
				vsymAssert(got[i] == want[i], "LIST shows exactly INBOX, the existing mailboxes and their superiors")
			}
		}
	}
}
