import json,subprocess,os,sys,importlib.util,importlib.machinery
root='/verif'
loader = importlib.machinery.SourceFileLoader("verifcheck", os.path.join(root, "check"))
spec = importlib.util.spec_from_loader("verifcheck", loader)
chk = importlib.util.module_from_spec(spec); loader.exec_module(chk)
import checks
h=[x for x in checks.CHECKS[sys.argv[1]]['harnesses'] if x['name']==sys.argv[2]][0]
work='/verif/.work/ovb'; os.makedirs(work,exist_ok=True)
ov=chk.overlay_for(h,work)
json.dump({"Replace":ov},open('/tmp/ov_chk.json','w'))
r=subprocess.run(['go','build','-overlay','/tmp/ov_chk.json','./'+h['pkg']+'/'],cwd='/repo',env=dict(os.environ,GOFLAGS='-mod=mod',GOPROXY='off'),stdout=subprocess.PIPE,stderr=subprocess.STDOUT,text=True)
print(r.stdout[:1500] or "builds")
