package session

import (
	"context"
	"io"
	"net"
	"strings"

	"github.com/ProtonMail/gluon/events"
	"github.com/ProtonMail/gluon/internal/backend"
	"github.com/ProtonMail/gluon/version"
)

// verifScriptConn is the client's side of a connection: it serves a byte script, then end of stream, and records
// what the session writes.
type verifScriptConn struct {
	net.Conn
	in    []byte
	pos   int
	lines []string
}

func (c *verifScriptConn) Read(b []byte) (int, error) {
	if c.pos >= len(c.in) {
		return 0, io.EOF
	}
	n := copy(b, c.in[c.pos:])
	c.pos += n
	return n, nil
}
func (c *verifScriptConn) Write(b []byte) (int, error) {
	c.lines = append(c.lines, strings.TrimRight(string(b), "\r\n"))
	return len(b), nil
}
func (c *verifScriptConn) Close() error { return nil }

// VerifC11Wire: the whole session loop on the wire (Session.serve with its command-reader goroutine, bufio, the input
// collector, command.Parser, ConsumeInvalidInput, the error counter, handleOther's handler goroutine, handleLogout)
// under the cooperative goroutine model: after a prefix that puts the session into one of the three protocol states, a
// line of n arbitrary bytes arrives, then "z LOGOUT".  The loop must not panic or dead-lock, must answer the
// arbitrary line (a tagged or untagged BAD / NO / OK) and must still serve the command that follows it.
func VerifC11Wire() {
	n := vsymParam("n")
	pre := []string{"", "a LOGIN alice pw1\r\n", "a LOGIN alice pw1\r\nb SELECT INBOX\r\n"}[vsymParam("state")]
	junk := vsymBytes("wire", n)
	for i, b := range junk {
		vsymAssume(b != '{') // a literal announcement would make the following lines part of this command
		if i == 0 {
			vsymAssume(b != 0x16) // a TLS hand-shake header closes the connection by design
		}
	}
	script := append(append([]byte(pre), junk...), []byte("\r\nz LOGOUT\r\n")...)
	conn := &verifScriptConn{in: script}
	ev := make(chan events.Event, 64)
	s := New(conn, backend.VerifNewBackendUsers(), 1, version.Info{}, nil, ev, 0, nil)
	err := s.serve(context.Background())
	vsymSched()
	vsymCover("served")
	for _, l := range conn.lines {
		vsymLog("wire-line", l)
	}
	vsymLog("serve-err", err)
	vsymAssert(err == nil, "the session loop ends without an error after LOGOUT")
	answered := false
	for _, l := range conn.lines {
		if strings.HasPrefix(l, "z OK") {
			answered = true
		}
	}
	vsymAssert(answered, "after an arbitrary line the session still serves the next command (LOGOUT answered)")
	// the prefix commands were answered OK
	nOK := 0
	for _, l := range conn.lines {
		if strings.HasPrefix(l, "a OK") || strings.HasPrefix(l, "b OK") {
			nOK++
		}
	}
	vsymAssert(nOK == strings.Count(pre, "\r\n"), "the commands before the arbitrary line were served")
	// the arbitrary line itself got an answer: some tagged / untagged BAD or NO line, or it was empty / a valid command
	vsymAssert(len(conn.lines) >= strings.Count(pre, "\r\n")+2, "every line got an answer")
}
