package main

// Value model: concrete shape, symbolic scalar leaves.
//
//   Sc        bool / integer scalar: concrete (T==nil, bits in C) or symbolic term
//   float64, float32      concrete floats
//   Str       string: concrete (b==nil) or per-byte scalars
//   Struct, Array         aggregates (immutable while held in SSA registers, copied on load/store)
//   Slice     []Value     (Go slice aliasing gives Go semantics for free)
//   *Value    pointer
//   *Map, *Chan
//   Iface     interface value
//   *ssa.Function, *Closure, *ssa.Builtin   function values
//   Tuple
//   UPtr      unsafe.Pointer wrapper
//   *mapIter / *strIter  range iterators

import (
	"fmt"
	"go/types"
	"strings"

	"golang.org/x/tools/go/ssa"
)

type Value = interface{}

type Sc struct {
	T *Term
	C uint64
}

func (s Sc) IsConc() bool { return s.T == nil }

type Str struct {
	s      string
	b      []Sc // non-nil => symbolic bytes (len(b) is the length), s unused
	opaque bool // result of formatting symbolic data; content must not be inspected
	nonEmpty bool // (opaque strings) the format has literal text, so the result is known not to be empty
}

type Struct []Value
type Array []Value
type Slice []Value
type Tuple []Value

type Iface struct {
	t types.Type
	v Value
}

type Closure struct {
	Fn  *ssa.Function
	Env []Value
}

type UPtr struct{ p Value }

// SymFloat is a float64 whose value is an integral number of seconds held as a (possibly symbolic) int64 scalar;
// it only supports conversion back to an integer type (time.Duration.Seconds() round trips).
type SymFloat struct{ sec Sc }

// sliceData is the result of unsafe.SliceData / unsafe.StringData
type sliceData struct {
	sl Slice
	st *Str
}

type Chan struct {
	buf    []Value
	cap    int
	closed bool
	// ticker: a time.Ticker channel - whether a tick is pending when a select looks at it is a symbolic choice
	// (at most `ticks` times per path)
	ticker bool
	ticks  int
}

type mapEntry struct {
	k, v    Value
	deleted bool
}

type Map struct {
	keyT    types.Type
	entries []*mapEntry
	idx     map[interface{}]*mapEntry // concrete basic keys only
	live    int
	symKeys int // number of live entries whose key is not concretely indexable
}

type rtype struct{ t types.Type }

// nativeObj wraps a Go object of the engine's own run time that interpreted code only passes around
// (e.g. a compiled regular expression).
type nativeObj struct{ v interface{} }

func mkBool(b bool) Sc {
	if b {
		return Sc{C: 1}
	}
	return Sc{}
}

func mkInt(v int64) Sc { return Sc{C: uint64(v)} }

// typeInfo gives the bit width and signedness of a basic integer/bool type.
type kindInfo struct {
	w      uint8
	signed bool
	isBool bool
	isInt  bool
	isStr  bool
	isFlt  bool
}

func basicInfo(t types.Type) kindInfo {
	b, ok := t.Underlying().(*types.Basic)
	if !ok {
		return kindInfo{}
	}
	switch b.Kind() {
	case types.Bool, types.UntypedBool:
		return kindInfo{isBool: true}
	case types.Int8:
		return kindInfo{w: 8, signed: true, isInt: true}
	case types.Int16:
		return kindInfo{w: 16, signed: true, isInt: true}
	case types.Int32, types.UntypedRune:
		return kindInfo{w: 32, signed: true, isInt: true}
	case types.Int, types.Int64, types.UntypedInt:
		return kindInfo{w: 64, signed: true, isInt: true}
	case types.Uint8:
		return kindInfo{w: 8, isInt: true}
	case types.Uint16:
		return kindInfo{w: 16, isInt: true}
	case types.Uint32:
		return kindInfo{w: 32, isInt: true}
	case types.Uint, types.Uint64, types.Uintptr:
		return kindInfo{w: 64, isInt: true}
	case types.String, types.UntypedString:
		return kindInfo{isStr: true}
	case types.Float32, types.Float64, types.UntypedFloat:
		return kindInfo{isFlt: true}
	}
	return kindInfo{}
}

// canon normalises a concrete integer to its canonical 64-bit representation for the type
// (sign- or zero-extended from its width).
func canon(v uint64, ki kindInfo) uint64 {
	if ki.w >= 64 || ki.w == 0 {
		return v
	}
	if ki.signed {
		return uint64(sext64(v&mask(ki.w), ki.w))
	}
	return v & mask(ki.w)
}

func zero(t types.Type) Value {
	switch t := t.(type) {
	case *types.Basic:
		if t.Kind() == types.UntypedNil {
			panic("untyped nil has no zero value")
		}
		ki := basicInfo(t)
		switch {
		case ki.isBool, ki.isInt:
			return Sc{}
		case ki.isStr:
			return Str{}
		case ki.isFlt:
			if t.Kind() == types.Float32 {
				return float32(0)
			}
			return float64(0)
		}
		if t.Kind() == types.UnsafePointer {
			return UPtr{}
		}
		if t.Kind() == types.Complex128 || t.Kind() == types.Complex64 || t.Kind() == types.UntypedComplex {
			return complex128(0)
		}
		panic(fmt.Sprintf("zero: unsupported basic %v", t))
	case *types.Pointer:
		return (*Value)(nil)
	case *types.Array:
		a := make(Array, t.Len())
		for i := range a {
			a[i] = zero(t.Elem())
		}
		return a
	case *types.Named:
		return zero(t.Underlying())
	case *types.Alias:
		return zero(types.Unalias(t))
	case *types.Interface:
		return Iface{}
	case *types.Slice:
		return Slice(nil)
	case *types.Struct:
		s := make(Struct, t.NumFields())
		for i := range s {
			s[i] = zero(t.Field(i).Type())
		}
		return s
	case *types.Tuple:
		if t.Len() == 1 {
			return zero(t.At(0).Type())
		}
		s := make(Tuple, t.Len())
		for i := range s {
			s[i] = zero(t.At(i).Type())
		}
		return s
	case *types.Chan:
		return (*Chan)(nil)
	case *types.Map:
		return (*Map)(nil)
	case *types.Signature:
		return (*ssa.Function)(nil)
	case *types.TypeParam:
		panic("zero of type parameter (generic body executed?)")
	}
	panic(fmt.Sprintf("zero: unexpected %T %v", t, t))
}

// copyVal returns a copy of aggregates (struct/array) so that register values never alias memory.
func copyVal(v Value) Value {
	switch v := v.(type) {
	case Struct:
		n := make(Struct, len(v))
		for i, x := range v {
			n[i] = copyVal(x)
		}
		return n
	case Array:
		n := make(Array, len(v))
		for i, x := range v {
			n[i] = copyVal(x)
		}
		return n
	}
	return v
}

func (s Str) Len() int {
	if s.b != nil {
		return len(s.b)
	}
	return len(s.s)
}

func (s Str) At(i int) Sc {
	if s.b != nil {
		return s.b[i]
	}
	return Sc{C: uint64(s.s[i])}
}

func (s Str) IsConc() bool { return s.b == nil }

func (s Str) Sub(lo, hi int) Str {
	if s.b != nil {
		return mkStrBytes(s.b[lo:hi])
	}
	return Str{s: s.s[lo:hi], opaque: s.opaque}
}

// mkStrBytes builds a string from byte scalars, collapsing to a concrete string when possible.
func mkStrBytes(b []Sc) Str {
	allc := true
	for _, x := range b {
		if x.T != nil {
			allc = false
			break
		}
	}
	if allc {
		var sb strings.Builder
		for _, x := range b {
			sb.WriteByte(byte(x.C))
		}
		return Str{s: sb.String()}
	}
	nb := make([]Sc, len(b))
	copy(nb, b)
	return Str{b: nb}
}

func strConcat(a, b Str) Str {
	if a.opaque || b.opaque {
		return Str{s: a.dbg() + b.dbg(), opaque: true, nonEmpty: (a.opaque && a.nonEmpty) || (b.opaque && b.nonEmpty) || (!a.opaque && a.Len() > 0) || (!b.opaque && b.Len() > 0)}
	}
	if a.b == nil && b.b == nil {
		return Str{s: a.s + b.s}
	}
	n := make([]Sc, 0, a.Len()+b.Len())
	for i := 0; i < a.Len(); i++ {
		n = append(n, a.At(i))
	}
	for i := 0; i < b.Len(); i++ {
		n = append(n, b.At(i))
	}
	return Str{b: n}
}

func (s Str) dbg() string {
	if s.b == nil {
		return s.s
	}
	var sb strings.Builder
	for _, x := range s.b {
		if x.T == nil {
			sb.WriteByte(byte(x.C))
		} else {
			sb.WriteByte('?')
		}
	}
	return sb.String()
}

// concreteKey returns a Go-comparable key for values usable in a native map index.
func concreteKey(v Value) (interface{}, bool) {
	switch v := v.(type) {
	case Sc:
		if v.T == nil {
			return v.C, true
		}
	case Str:
		if v.b == nil && !v.opaque {
			return v.s, true
		}
	case *Value:
		return v, true
	case *Map:
		return v, true
	case *Chan:
		return v, true
	case float64:
		return v, true
	case Struct:
		// small structs of concrete basics: encode as string
		var sb strings.Builder
		for _, f := range v {
			k, ok := concreteKey(f)
			if !ok {
				return nil, false
			}
			fmt.Fprintf(&sb, "%T:%v|", k, k)
		}
		return "struct:" + sb.String(), true
	case Array:
		var sb strings.Builder
		for _, f := range v {
			k, ok := concreteKey(f)
			if !ok {
				return nil, false
			}
			fmt.Fprintf(&sb, "%T:%v|", k, k)
		}
		return "array:" + sb.String(), true
	case Iface:
		if v.t == nil {
			return "iface:nil", true
		}
		k, ok := concreteKey(v.v)
		if !ok {
			return nil, false
		}
		return fmt.Sprintf("iface:%s:%T:%v", types.TypeString(v.t, nil), k, k), true
	}
	return nil, false
}

// describe renders a value for samples/debug output.
func describe(v Value) string {
	switch v := v.(type) {
	case nil:
		return "<nil>"
	case Sc:
		if v.T == nil {
			return fmt.Sprintf("%d", int64(v.C))
		}
		return v.T.String()
	case Str:
		return fmt.Sprintf("%q", v.dbg())
	case Struct:
		parts := make([]string, len(v))
		for i, x := range v {
			parts[i] = describe(x)
		}
		return "{" + strings.Join(parts, " ") + "}"
	case Array:
		parts := make([]string, len(v))
		for i, x := range v {
			parts[i] = describe(x)
		}
		return "[" + strings.Join(parts, " ") + "]"
	case Slice:
		if v == nil {
			return "[]nil"
		}
		if len(v) > 16 {
			return fmt.Sprintf("[]#%d", len(v))
		}
		parts := make([]string, len(v))
		for i, x := range v {
			parts[i] = describe(x)
		}
		return "[]{" + strings.Join(parts, " ") + "}"
	case Tuple:
		parts := make([]string, len(v))
		for i, x := range v {
			parts[i] = describe(x)
		}
		return "(" + strings.Join(parts, ", ") + ")"
	case Iface:
		if v.t == nil {
			return "nil-iface"
		}
		return fmt.Sprintf("%s(%s)", types.TypeString(v.t, func(p *types.Package) string { return p.Name() }), describe(v.v))
	case *Value:
		if v == nil {
			return "nil-ptr"
		}
		return fmt.Sprintf("&%p", v)
	case *Map:
		if v == nil {
			return "nil-map"
		}
		return fmt.Sprintf("map#%d", v.live)
	case *ssa.Function:
		if v == nil {
			return "nil-func"
		}
		return v.String()
	case *Closure:
		return "closure:" + v.Fn.String()
	}
	return fmt.Sprintf("%T", v)
}
