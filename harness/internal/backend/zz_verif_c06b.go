package backend

import (
	"context"
	"strings"

	"github.com/ProtonMail/gluon/imap"
	"github.com/ProtonMail/gluon/internal/state"
	"github.com/ProtonMail/gluon/internal/verifdb"
	"github.com/ProtonMail/gluon/limits"
)

// ---- C06: sequences of message updates with sessions watching, against a reference model ----

type c6Msg struct {
	remote  imap.MessageID
	id      imap.InternalMessageID
	exists  bool
	inA     bool
	inB     bool
	seen    bool
	flagged bool
}

func c6FlagSet(seen, flagged bool) imap.FlagSet {
	fs := imap.NewFlagSet()
	if seen {
		fs.AddToSelf(imap.FlagSeen)
	}
	if flagged {
		fs.AddToSelf(imap.FlagFlagged)
	}
	return fs
}

type c6World struct {
	u          *user
	d          *verifdb.DB
	a, b       *verifdb.Box
	obsA, obsB *state.State
	ref        []*c6Msg
}

func (w *c6World) flush(st *state.State) int {
	n := 0
	ctx := state.NewStateContext(context.Background(), st)
	err := st.Selected(ctx, func(m *state.Mailbox) error {
		res, err := m.Flush(ctx, true)
		n = len(res)
		return err
	})
	vsymAssert(err == nil, "NOOP succeeds")
	return n
}

// settle delivers everything queued to both sessions and lets them NOOP; returns the number of untagged responses.
func (w *c6World) settle() int {
	verifDrain(w.obsA)
	verifDrain(w.obsB)
	return w.flush(w.obsA) + w.flush(w.obsB)
}

// compare checks the index against the reference model.
func (w *c6World) compare() {
	for _, m := range w.ref {
		var inA, inB bool
		if m.exists {
			inA = w.a.Row(m.id) != nil
			inB = w.b.Row(m.id) != nil
		} else if m.id != (imap.InternalMessageID{}) {
			inA = w.a.Row(m.id) != nil
			inB = w.b.Row(m.id) != nil
		}
		vsymAssert(inA == (m.exists && m.inA), "membership in A is exactly what the updates described")
		vsymAssert(inB == (m.exists && m.inB), "membership in B is exactly what the updates described")
		if m.exists {
			row := w.d.Msg(m.id)
			vsymAssert(row != nil, "message row exists")
			if row != nil {
				var seen, flagged, other bool
				for _, f := range row.Flags {
					switch strings.ToLower(f) {
					case imap.FlagSeenLowerCase:
						seen = true
					case imap.FlagFlaggedLowerCase:
						flagged = true
					default:
						other = true
					}
				}
				vsymAssert(seen == m.seen && flagged == m.flagged && !other, "flags are exactly what the updates described")
				vsymAssert(row.Remote == m.remote, "remote id is what the updates described")
			}
		}
	}
}

// VerifC06Sequence: message updates of every kind, valid ones applied successfully with exactly the described
// change, each optionally delivered twice: the second delivery changes nothing in the index and no watching
// session sends EXISTS / EXPUNGE / FETCH for it.
func VerifC06Sequence() {
	k := vsymParam("k")
	u, d, st := verifUser()
	w := &c6World{u: u, d: d}
	w.a = d.AddBox("A", "mb-A", 2)
	w.b = d.AddBox("B", "mb-B", 3)
	id1, id2 := imap.NewInternalMessageID(), imap.NewInternalMessageID()
	// the stored spelling of a flag may differ in letter case from the connector's (a client's STORE +FLAGS (\seen))
	spell := vsymChoice("flags1", 4)
	d.AddMsg(id1, "rm-1", [][]string{{}, {imap.FlagSeen}, {"\\seen"}, {"\\FLAGGED"}}[spell]...)
	w.a.AddRow(id1, "rm-1", 1, false, false)
	d.AddMsg(id2, "rm-2")
	w.b.AddRow(id2, "rm-2", 1, false, false)
	st.data[id1] = []byte("X-Pm-Gluon-Id: " + id1.String() + "\r\n" + verifLit1)
	st.data[id2] = []byte("X-Pm-Gluon-Id: " + id2.String() + "\r\n" + verifLit2)
	w.ref = []*c6Msg{
		{remote: "rm-1", id: id1, exists: true, inA: true, seen: spell == 1 || spell == 2, flagged: spell == 3},
		{remote: "rm-2", id: id2, exists: true, inB: true},
		{remote: "rm-3"}, // not yet known
	}
	ctx := context.Background()
	var err error
	w.obsA, err = u.newState()
	if err != nil {
		panic(err)
	}
	w.obsB, err = u.newState()
	if err != nil {
		panic(err)
	}
	if err := w.obsA.Select(state.NewStateContext(ctx, w.obsA), "A", func(m *state.Mailbox) error { return nil }); err != nil {
		panic(err)
	}
	if err := w.obsB.Select(state.NewStateContext(ctx, w.obsB), "B", func(m *state.Mailbox) error { return nil }); err != nil {
		panic(err)
	}

	boxSets := [][]imap.MailboxID{{"mb-A"}, {"mb-B"}, {"mb-A", "mb-B"}}
	for step := 0; step < k; step++ {
		var mk func() imap.Update
		valid := true
		restates := false // the update describes exactly the current state (an echo of the server's own action)
		var effect func()
		switch vsymChoice("kind", 5) {
		case 0: // a batch of two created messages: any mix of known and unknown ones
			i1, i2 := vsymChoice("crMsg1", 3), vsymChoice("crMsg2", 3)
			b1, b2 := vsymChoice("crBox1", 3), vsymChoice("crBox2", 3)
			m1, m2 := w.ref[i1], w.ref[i2]
			mk = func() imap.Update {
				return imap.NewMessagesCreated(false, verifMessageCreated(m1.remote, verifLit2, boxSets[b1]...), verifMessageCreated(m2.remote, verifLit2, boxSets[b2]...))
			}
			// a message that was deleted before may be announced again: judged only for messages that exist or are new
			valid = (m1.exists || m1.id == (imap.InternalMessageID{})) && (m2.exists || m2.id == (imap.InternalMessageID{}))
			restates = m1.exists && m2.exists && (m1.inA || b1 == 1) && (m1.inB || b1 == 0) && (m2.inA || b2 == 1) && (m2.inB || b2 == 0)
			effect = func() {
				for _, x := range []struct {
					m *c6Msg
					b int
				}{{m1, b1}, {m2, b2}} {
					if !x.m.exists {
						x.m.exists = true
						id, err := verifdbLookup(w.d, x.m.remote)
						vsymAssert(err == nil, "created message has a row")
						x.m.id = id
					}
					x.m.inA = x.m.inA || x.b != 1
					x.m.inB = x.m.inB || x.b != 0
				}
			}
			vsymCover("seq-created")
		case 1:
			m := w.ref[vsymChoice("mmMsg", 2)]
			bs := vsymChoice("mmBoxes", 3)
			seen, flagged := vsymBool("mmSeen"), vsymBool("mmFlagged")
			mk = func() imap.Update {
				return imap.NewMessageMailboxesUpdated(m.remote, boxSets[bs], c6FlagSet(seen, flagged))
			}
			valid = m.exists
			restates = m.inA == (bs != 1) && m.inB == (bs != 0) && m.seen == seen && m.flagged == flagged
			effect = func() { m.inA, m.inB, m.seen, m.flagged = bs != 1, bs != 0, seen, flagged }
			vsymCover("seq-mailboxes")
		case 2:
			m := w.ref[vsymChoice("mfMsg", 2)]
			seen, flagged := vsymBool("mfSeen"), vsymBool("mfFlagged")
			mk = func() imap.Update { return imap.NewMessageFlagsUpdated(m.remote, c6FlagSet(seen, flagged)) }
			valid = m.exists
			restates = m.seen == seen && m.flagged == flagged
			effect = func() { m.seen, m.flagged = seen, flagged }
			vsymCover("seq-flags")
		case 3:
			m := w.ref[vsymChoice("mdMsg", 2)]
			mk = func() imap.Update { return imap.NewMessagesDeleted(m.remote) }
			valid = m.exists
			effect = func() { m.exists, m.inA, m.inB = false, false, false }
			vsymCover("seq-deleted")
		case 4:
			m := w.ref[vsymChoice("idMsg", 2)]
			newRemote := imap.MessageID(string(m.remote) + "x")
			id := m.id
			mk = func() imap.Update { return imap.NewMessageIDChanged(id, newRemote) }
			valid = m.exists
			effect = func() { m.remote = newRemote }
			vsymCover("seq-id-changed")
		}
		if !valid {
			vsymAssume(false) // updates about unknown objects: acknowledgement and atomicity are VerifC06Apply's subject
		}
		before := verifSnap(d)
		up := mk()
		err := u.apply(ctx, up)
		werr, ok := up.Wait()
		vsymAssert(err == nil, "a valid update is applied successfully")
		vsymAssert(!ok && werr == nil, "and acknowledged without an error")
		if err != nil {
			return
		}
		effect()
		w.compare()
		if restates {
			vsymCover("seq-restates")
			vsymAssert(verifSnap(d).equal(before), "an update that restates the current state changes nothing in the index")
			vsymAssert(w.settle() == 0, "an update that restates the current state makes no session send EXISTS, EXPUNGE or FETCH")
		} else {
			w.settle()
		}
		if vsymChoice("redeliver", 2) == 1 {
			before = verifSnap(d)
			up2 := mk()
			err2 := u.apply(ctx, up2)
			vsymAssert(err2 == nil, "a re-delivered update is acknowledged without an error")
			vsymAssert(verifSnap(d).equal(before), "re-delivery changes nothing in the index (no new UID, row or flag)")
			w.compare()
			vsymAssert(w.settle() == 0, "re-delivery makes no session send EXISTS, EXPUNGE or FETCH")
			vsymCover("seq-redelivered")
		}
	}
}

func verifdbLookup(d *verifdb.DB, remote imap.MessageID) (imap.InternalMessageID, error) {
	for _, m := range d.Msgs {
		if m.Remote == remote {
			return m.ID, nil
		}
	}
	return imap.InternalMessageID{}, verifdbErr
}

var verifdbErr = context.Canceled

// VerifC17Connector: connector-driven additions against the per-mailbox message limit: whatever mix of mailboxes an
// update touches, afterwards no mailbox exceeds the limit, and an update that is refused leaves the index as it
// was (all or nothing).
func VerifC17Connector() {
	u, d, st := verifUser()
	maxBoxes := 3 + vsymChoice("maxMailboxes", 2) // the user starts with 3 mailboxes (recovery, A, B)
	u.imapLimits = limits.NewIMAPLimits(uint32(maxBoxes), 2, 1000, 1000)
	a := d.AddBox("A", "mb-A", 2)
	b := d.AddBox("B", "mb-B", 3)
	for i, box := range []*verifdb.Box{a, b} {
		n := vsymChoice("initial", 3)
		for j := 0; j < n; j++ {
			id := imap.NewInternalMessageID()
			remote := imap.MessageID([]string{"ra-", "rb-"}[i] + string(rune('0'+j)))
			d.AddMsg(id, remote)
			box.AddRow(id, remote, imap.UID(j+1), false, false)
			st.data[id] = []byte("X-Pm-Gluon-Id: " + id.String() + "\r\n" + verifLit1)
		}
	}
	boxSets := [][]imap.MailboxID{{"mb-A"}, {"mb-B"}, {"mb-A", "mb-B"}, {"mb-B", "mb-A"}}
	var up imap.Update
	switch vsymChoice("kind", 3) {
	case 2:
		up = imap.NewMailboxCreated(imap.Mailbox{ID: "mb-new", Name: []string{"new"}, Flags: imap.NewFlagSet(), PermanentFlags: imap.NewFlagSet(), Attributes: imap.NewFlagSet()})
	case 0:
		up = imap.NewMessagesCreated(false, verifMessageCreated("rn-1", verifLit2, boxSets[vsymChoice("set1", 4)]...), verifMessageCreated("rn-2", verifLit2, boxSets[vsymChoice("set2", 4)]...))
	case 1:
		if len(a.Rows) == 0 {
			vsymAssume(false)
		}
		up = imap.NewMessageMailboxesUpdated(a.Rows[0].Remote, boxSets[vsymChoice("set1", 4)], imap.NewFlagSet())
	}
	before := verifSnap(d)
	err := u.apply(context.Background(), up)
	for _, box := range []*verifdb.Box{a, b} {
		vsymAssert(len(box.Rows) <= 2, "no mailbox exceeds the configured maximum message count after a connector update")
	}
	vsymAssert(len(d.Boxes) <= maxBoxes, "the number of mailboxes stays within the configured maximum after a connector update")
	if err != nil {
		vsymCover("connector-refused")
		vsymAssert(verifSnap(d).equal(before), "a refused connector update leaves the index as it was (no partial application)")
	} else {
		vsymCover("connector-accepted")
	}
}
