package verifdb

import (
	"context"
	"fmt"
	"strings"
	"time"

	"github.com/ProtonMail/gluon/db"
	"github.com/ProtonMail/gluon/imap"
)

// Tx implements db.Transaction (and db.ReadOnly) on the model.
type Tx struct {
	txBase
	D *DB
}

// mutate is called by every mutating operation: effect log + optional injected failure.
func (t *Tx) mutate(op string) error {
	d := t.D
	if d.FaultBudget > 0 && vsymBool("dbFault") {
		d.FaultBudget--
		d.Faults++
		d.Log = append(d.Log, "FAIL "+op)
		return ErrFault
	}
	d.Writes++
	d.Log = append(d.Log, op)
	return nil
}

// ---------------- mailbox reads ----------------

func (t *Tx) MailboxExistsWithID(ctx context.Context, id imap.InternalMailboxID) (bool, error) {
	return t.D.BoxByID(id) != nil, nil
}
func (t *Tx) MailboxExistsWithRemoteID(ctx context.Context, id imap.MailboxID) (bool, error) {
	return t.D.BoxByRemote(id) != nil, nil
}
func (t *Tx) MailboxExistsWithName(ctx context.Context, name string) (bool, error) {
	return t.D.BoxByName(name) != nil, nil
}
func (t *Tx) GetMailboxIDFromRemoteID(ctx context.Context, id imap.MailboxID) (imap.InternalMailboxID, error) {
	if b := t.D.BoxByRemote(id); b != nil {
		return b.ID, nil
	}
	return 0, db.ErrNotFound
}
func (t *Tx) GetMailboxName(ctx context.Context, id imap.InternalMailboxID) (string, error) {
	if b := t.D.BoxByID(id); b != nil {
		return b.Name, nil
	}
	return "", db.ErrNotFound
}
func (t *Tx) GetMailboxNameWithRemoteID(ctx context.Context, id imap.MailboxID) (string, error) {
	if b := t.D.BoxByRemote(id); b != nil {
		return b.Name, nil
	}
	return "", db.ErrNotFound
}
func (t *Tx) GetMailboxMessageIDPairs(ctx context.Context, id imap.InternalMailboxID) ([]db.MessageIDPair, error) {
	b := t.D.BoxByID(id)
	if b == nil {
		return nil, fmt.Errorf("no such table mailbox_message_%v", id)
	}
	var out []db.MessageIDPair
	for _, r := range b.Rows {
		out = append(out, db.MessageIDPair{InternalID: r.Msg, RemoteID: r.Remote})
	}
	return out, nil
}
func mboxOf(b *Box) *db.Mailbox {
	return &db.Mailbox{ID: b.ID, RemoteID: b.Remote, Name: b.Name, UIDValidity: b.UIDValidity, Subscribed: b.Subscribed}
}
func (t *Tx) GetAllMailboxesWithAttr(ctx context.Context) ([]*db.MailboxWithAttr, error) {
	var out []*db.MailboxWithAttr
	for _, b := range t.D.Boxes {
		out = append(out, &db.MailboxWithAttr{Mailbox: *mboxOf(b), Attributes: imap.NewFlagSet(b.Attrs...)})
	}
	return out, nil
}
func (t *Tx) GetAllMailboxesAsRemoteIDs(ctx context.Context) ([]imap.MailboxID, error) {
	var out []imap.MailboxID
	for _, b := range t.D.Boxes {
		out = append(out, b.Remote)
	}
	return out, nil
}
func (t *Tx) GetMailboxByName(ctx context.Context, name string) (*db.Mailbox, error) {
	if b := t.D.BoxByName(name); b != nil {
		return mboxOf(b), nil
	}
	return nil, db.ErrNotFound
}
func (t *Tx) GetMailboxByID(ctx context.Context, id imap.InternalMailboxID) (*db.Mailbox, error) {
	if b := t.D.BoxByID(id); b != nil {
		return mboxOf(b), nil
	}
	return nil, db.ErrNotFound
}
func (t *Tx) GetMailboxByRemoteID(ctx context.Context, id imap.MailboxID) (*db.Mailbox, error) {
	if b := t.D.BoxByRemote(id); b != nil {
		return mboxOf(b), nil
	}
	return nil, db.ErrNotFound
}
func (t *Tx) GetMailboxRecentCount(ctx context.Context, id imap.InternalMailboxID) (int, error) {
	b := t.D.BoxByID(id)
	if b == nil {
		return 0, fmt.Errorf("no such table")
	}
	n := 0
	for _, r := range b.Rows {
		if r.Recent {
			n++
		}
	}
	return n, nil
}
func (t *Tx) GetMailboxMessageCount(ctx context.Context, id imap.InternalMailboxID) (int, error) {
	b := t.D.BoxByID(id)
	if b == nil {
		return 0, fmt.Errorf("no such table")
	}
	return len(b.Rows), nil
}
func (t *Tx) GetMailboxMessageCountWithRemoteID(ctx context.Context, id imap.MailboxID) (int, error) {
	b := t.D.BoxByRemote(id)
	if b == nil {
		return 0, db.ErrNotFound
	}
	return len(b.Rows), nil
}
func (t *Tx) GetMailboxFlags(ctx context.Context, id imap.InternalMailboxID) (imap.FlagSet, error) {
	b := t.D.BoxByID(id)
	if b == nil {
		return imap.NewFlagSet(), nil
	}
	return imap.NewFlagSetFromSlice(b.Flags), nil
}
func (t *Tx) GetMailboxPermanentFlags(ctx context.Context, id imap.InternalMailboxID) (imap.FlagSet, error) {
	b := t.D.BoxByID(id)
	if b == nil {
		return imap.NewFlagSet(), nil
	}
	return imap.NewFlagSetFromSlice(b.PermFlags), nil
}
func (t *Tx) GetMailboxAttributes(ctx context.Context, id imap.InternalMailboxID) (imap.FlagSet, error) {
	b := t.D.BoxByID(id)
	if b == nil {
		return imap.NewFlagSet(), nil
	}
	return imap.NewFlagSetFromSlice(b.Attrs), nil
}

// GetMailboxUID: sqlite_sequence.seq + 1, or 1 for a table that never held a row.
func (t *Tx) GetMailboxUID(ctx context.Context, id imap.InternalMailboxID) (imap.UID, error) {
	b := t.D.BoxByID(id)
	if b == nil {
		return 1, nil
	}
	return b.LastUID.Add(1), nil
}
func (t *Tx) GetMailboxMessageCountAndUID(ctx context.Context, id imap.InternalMailboxID) (int, imap.UID, error) {
	c, err := t.GetMailboxMessageCount(ctx, id)
	if err != nil {
		return 0, 0, err
	}
	u, _ := t.GetMailboxUID(ctx, id)
	return c, u, nil
}
func (t *Tx) GetMailboxMessageForNewSnapshot(ctx context.Context, id imap.InternalMailboxID) ([]db.SnapshotMessageResult, error) {
	b := t.D.BoxByID(id)
	if b == nil {
		return nil, fmt.Errorf("no such table")
	}
	var out []db.SnapshotMessageResult
	for _, r := range b.Rows {
		out = append(out, db.SnapshotMessageResult{InternalID: r.Msg, RemoteID: r.Remote, UID: r.UID, Recent: r.Recent, Deleted: r.Deleted, Flags: t.D.flagsString(r.Msg)})
	}
	return out, nil
}
func (t *Tx) MailboxTranslateRemoteIDs(ctx context.Context, ids []imap.MailboxID) ([]imap.InternalMailboxID, error) {
	var out []imap.InternalMailboxID
	for _, b := range t.D.Boxes { // table order, as the IN query returns
		for _, id := range ids {
			if b.Remote == id {
				out = append(out, b.ID)
				break
			}
		}
	}
	return out, nil
}
func (t *Tx) MailboxFilterContains(ctx context.Context, id imap.InternalMailboxID, msgs []db.MessageIDPair) ([]imap.InternalMessageID, error) {
	b := t.D.BoxByID(id)
	if b == nil {
		return nil, fmt.Errorf("no such table")
	}
	var out []imap.InternalMessageID
	for _, r := range b.Rows {
		for _, m := range msgs {
			if m.InternalID == r.Msg {
				out = append(out, r.Msg)
				break
			}
		}
	}
	return out, nil
}
func (t *Tx) GetMailboxCount(ctx context.Context) (int, error) { return len(t.D.Boxes), nil }
func (t *Tx) GetAllMailboxesNameAndRemoteID(ctx context.Context) ([]db.MailboxNameAndRemoteID, error) {
	var out []db.MailboxNameAndRemoteID
	for _, b := range t.D.Boxes {
		out = append(out, db.MailboxNameAndRemoteID{Name: b.Name, RemoteID: b.Remote})
	}
	return out, nil
}

// ---------------- mailbox writes ----------------

// CreateMailbox: INSERT INTO mailboxes ... ; UNIQUE(remote id), UNIQUE(name); subscribed = true; a fresh message table.
func (t *Tx) CreateMailbox(ctx context.Context, remote imap.MailboxID, name string, flags, permFlags, attrs imap.FlagSet, uidValidity imap.UID) (*db.Mailbox, error) {
	if err := t.mutate("CreateMailbox " + name); err != nil {
		return nil, err
	}
	if t.D.BoxByRemote(remote) != nil || t.D.BoxByName(name) != nil {
		return nil, ErrUnique
	}
	b := &Box{ID: t.D.NextBoxID, Remote: remote, Name: name, Subscribed: true, UIDValidity: uidValidity,
		Flags: flags.ToSliceUnsorted(), PermFlags: permFlags.ToSliceUnsorted(), Attrs: attrs.ToSliceUnsorted()}
	t.D.NextBoxID++
	t.D.Boxes = append(t.D.Boxes, b)
	return mboxOf(b), nil
}
func (t *Tx) GetOrCreateMailbox(ctx context.Context, remote imap.MailboxID, name string, flags, permFlags, attrs imap.FlagSet, uidValidity imap.UID) (*db.Mailbox, error) {
	if b := t.D.BoxByRemote(remote); b != nil {
		return mboxOf(b), nil
	}
	return t.CreateMailbox(ctx, remote, name, flags, permFlags, attrs, uidValidity)
}
func (t *Tx) GetOrCreateMailboxAlt(ctx context.Context, mbox imap.Mailbox, delimiter string, uidValidity imap.UID) (*db.Mailbox, error) {
	return t.GetOrCreateMailbox(ctx, mbox.ID, strings.Join(mbox.Name, delimiter), mbox.Flags, mbox.PermanentFlags, mbox.Attributes, uidValidity)
}
func (t *Tx) CreateMailboxIfNotExists(ctx context.Context, mbox imap.Mailbox, delimiter string, uidValidity imap.UID) error {
	_, err := t.GetOrCreateMailboxAlt(ctx, mbox, delimiter, uidValidity)
	return err
}

// RenameMailboxWithRemoteID: UPDATE ... WHERE remote id = ? ; error when no row changed; UNIQUE(name).
func (t *Tx) RenameMailboxWithRemoteID(ctx context.Context, remote imap.MailboxID, name string) error {
	if err := t.mutate("RenameMailbox " + name); err != nil {
		return err
	}
	b := t.D.BoxByRemote(remote)
	if b == nil {
		return fmt.Errorf("no values changed")
	}
	if o := t.D.BoxByName(name); o != nil && o != b {
		return ErrUnique
	}
	b.Name = name
	return nil
}

// DeleteMailboxWithRemoteID: no-op when unknown; a subscribed mailbox leaves a deleted_subscriptions row.
func (t *Tx) DeleteMailboxWithRemoteID(ctx context.Context, remote imap.MailboxID) error {
	b := t.D.BoxByRemote(remote)
	if b == nil {
		return nil
	}
	if b.Subscribed {
		if err := t.AddDeletedSubscription(ctx, b.Name, remote); err != nil {
			return err
		}
	}
	if err := t.mutate("DeleteMailbox " + b.Name); err != nil {
		return err
	}
	for i, x := range t.D.Boxes {
		if x == b {
			t.D.Boxes = append(t.D.Boxes[:i:i], t.D.Boxes[i+1:]...)
			break
		}
	}
	return nil
}

// AddMessagesToMailbox: rows appended in argument order with fresh increasing UIDs (AUTOINCREMENT), recent=true,
// deleted=false; UNIQUE(message id) per mailbox table; returns the listed rows ordered by UID with the message flags.
func (t *Tx) AddMessagesToMailbox(ctx context.Context, id imap.InternalMailboxID, msgs []db.MessageIDPair) ([]db.UIDWithFlags, error) {
	if len(msgs) == 0 {
		return nil, nil
	}
	if err := t.mutate(fmt.Sprintf("AddMessagesToMailbox box=%v n=%d", id, len(msgs))); err != nil {
		return nil, err
	}
	b := t.D.BoxByID(id)
	if b == nil {
		return nil, fmt.Errorf("no such table")
	}
	for _, m := range msgs {
		if b.Row(m.InternalID) != nil {
			return nil, ErrUnique
		}
		if t.D.Msg(m.InternalID) == nil {
			return nil, fmt.Errorf("FOREIGN KEY constraint failed")
		}
		b.LastUID = b.LastUID.Add(1)
		b.Rows = append(b.Rows, BoxRow{UID: b.LastUID, Msg: m.InternalID, Remote: m.RemoteID, Recent: true})
	}
	var out []db.UIDWithFlags
	for _, r := range b.Rows {
		for _, m := range msgs {
			if m.InternalID == r.Msg {
				out = append(out, db.UIDWithFlags{InternalID: r.Msg, RemoteID: r.Remote, UID: r.UID, Recent: r.Recent, Deleted: r.Deleted, Flags: t.D.flagsString(r.Msg)})
				break
			}
		}
	}
	return out, nil
}

// RemoveMessagesFromMailbox: deletes the rows of the listed messages (intended semantics).
func (t *Tx) RemoveMessagesFromMailbox(ctx context.Context, id imap.InternalMailboxID, msgs []imap.InternalMessageID) error {
	if err := t.mutate(fmt.Sprintf("RemoveMessagesFromMailbox box=%v n=%d", id, len(msgs))); err != nil {
		return err
	}
	b := t.D.BoxByID(id)
	if b == nil {
		return fmt.Errorf("no such table")
	}
	var keep []BoxRow
	for _, r := range b.Rows {
		rm := false
		for _, m := range msgs {
			if m == r.Msg {
				rm = true
				break
			}
		}
		if !rm {
			keep = append(keep, r)
		}
	}
	b.Rows = keep
	return nil
}
func (t *Tx) ClearRecentFlagInMailboxOnMessage(ctx context.Context, id imap.InternalMailboxID, msg imap.InternalMessageID) error {
	if err := t.mutate("ClearRecentFlagInMailboxOnMessage"); err != nil {
		return err
	}
	if b := t.D.BoxByID(id); b != nil {
		if r := b.Row(msg); r != nil {
			r.Recent = false
		}
	}
	return nil
}
func (t *Tx) ClearRecentFlagsInMailbox(ctx context.Context, id imap.InternalMailboxID) error {
	if err := t.mutate("ClearRecentFlagsInMailbox"); err != nil {
		return err
	}
	if b := t.D.BoxByID(id); b != nil {
		for i := range b.Rows {
			b.Rows[i].Recent = false
		}
	}
	return nil
}
func (t *Tx) SetMailboxMessagesDeletedFlag(ctx context.Context, id imap.InternalMailboxID, msgs []imap.InternalMessageID, deleted bool) error {
	if err := t.mutate(fmt.Sprintf("SetMailboxMessagesDeletedFlag box=%v n=%d %v", id, len(msgs), deleted)); err != nil {
		return err
	}
	b := t.D.BoxByID(id)
	if b == nil {
		return fmt.Errorf("no such table")
	}
	for _, m := range msgs {
		if r := b.Row(m); r != nil {
			r.Deleted = deleted
		}
	}
	return nil
}
func (t *Tx) SetMailboxSubscribed(ctx context.Context, id imap.InternalMailboxID, subscribed bool) error {
	if err := t.mutate("SetMailboxSubscribed"); err != nil {
		return err
	}
	if b := t.D.BoxByID(id); b != nil {
		b.Subscribed = subscribed
	}
	return nil
}
func (t *Tx) UpdateRemoteMailboxID(ctx context.Context, id imap.InternalMailboxID, remote imap.MailboxID) error {
	if err := t.mutate("UpdateRemoteMailboxID"); err != nil {
		return err
	}
	b := t.D.BoxByID(id)
	if b == nil {
		return fmt.Errorf("no values changed")
	}
	if o := t.D.BoxByRemote(remote); o != nil && o != b {
		return ErrUnique
	}
	b.Remote = remote
	return nil
}
func (t *Tx) SetMailboxUIDValidity(ctx context.Context, id imap.InternalMailboxID, v imap.UID) error {
	if err := t.mutate("SetMailboxUIDValidity"); err != nil {
		return err
	}
	b := t.D.BoxByID(id)
	if b == nil {
		return fmt.Errorf("no values changed")
	}
	b.UIDValidity = v
	return nil
}
func (t *Tx) AddFlagsToAllMailboxes(ctx context.Context, flags ...string) error     { return nil }
func (t *Tx) AddPermFlagsToAllMailboxes(ctx context.Context, flags ...string) error { return nil }

// ---------------- message reads ----------------

func (t *Tx) MessageExists(ctx context.Context, id imap.InternalMessageID) (bool, error) {
	return t.D.Msg(id) != nil, nil
}
func (t *Tx) MessageExistsWithRemoteID(ctx context.Context, id imap.MessageID) (bool, error) {
	return t.D.MsgByRemote(id) != nil, nil
}
func msgOf(m *MsgRow) db.Message {
	return db.Message{ID: m.ID, RemoteID: m.Remote, Date: m.Date, Size: m.Size, Body: m.Body, BodyStructure: m.Structure, Envelope: m.Envelope, Deleted: m.MarkedDeleted}
}
func (t *Tx) GetMessageNoEdges(ctx context.Context, id imap.InternalMessageID) (*db.Message, error) {
	if m := t.D.Msg(id); m != nil {
		r := msgOf(m)
		return &r, nil
	}
	return nil, db.ErrNotFound
}
func (t *Tx) GetTotalMessageCount(ctx context.Context) (int, error) { return len(t.D.Msgs), nil }
func (t *Tx) GetMessageRemoteID(ctx context.Context, id imap.InternalMessageID) (imap.MessageID, error) {
	if m := t.D.Msg(id); m != nil {
		return m.Remote, nil
	}
	return "", db.ErrNotFound
}
func (t *Tx) GetImportedMessageData(ctx context.Context, id imap.InternalMessageID) (*db.MessageWithFlags, error) {
	if m := t.D.Msg(id); m != nil {
		return &db.MessageWithFlags{Message: msgOf(m), Flags: imap.NewFlagSet(m.Flags...)}, nil
	}
	return nil, db.ErrNotFound
}
func (t *Tx) GetMessageDateAndSize(ctx context.Context, id imap.InternalMessageID) (time.Time, int, error) {
	if m := t.D.Msg(id); m != nil {
		return m.Date, m.Size, nil
	}
	return time.Time{}, 0, db.ErrNotFound
}
func (t *Tx) GetMessageMailboxIDs(ctx context.Context, id imap.InternalMessageID) ([]imap.InternalMailboxID, error) {
	var out []imap.InternalMailboxID
	for _, b := range t.D.Boxes {
		if b.Row(id) != nil {
			out = append(out, b.ID)
		}
	}
	return out, nil
}

// GetMessagesFlags: one entry per existing listed message (none for unknown ids), in table order;
// FlagSet is nil when the message has no flag rows.
func (t *Tx) GetMessagesFlags(ctx context.Context, ids []imap.InternalMessageID) ([]db.MessageFlagSet, error) {
	var out []db.MessageFlagSet
	for _, m := range t.D.Msgs {
		for _, id := range ids {
			if id == m.ID {
				e := db.MessageFlagSet{ID: m.ID, RemoteID: m.Remote}
				if len(m.Flags) > 0 {
					e.FlagSet = imap.NewFlagSetFromSlice(m.Flags)
				}
				out = append(out, e)
				break
			}
		}
	}
	return out, nil
}
func (t *Tx) GetMessageIDsMarkedAsDelete(ctx context.Context) ([]imap.InternalMessageID, error) {
	var out []imap.InternalMessageID
	for _, m := range t.D.Msgs {
		if m.MarkedDeleted {
			out = append(out, m.ID)
		}
	}
	return out, nil
}
func (t *Tx) GetMessageIDFromRemoteID(ctx context.Context, id imap.MessageID) (imap.InternalMessageID, error) {
	if m := t.D.MsgByRemote(id); m != nil {
		return m.ID, nil
	}
	return imap.InternalMessageID{}, db.ErrNotFound
}
func (t *Tx) GetMessageDeletedFlag(ctx context.Context, id imap.InternalMessageID) (bool, error) {
	if m := t.D.Msg(id); m != nil {
		return m.MarkedDeleted, nil
	}
	return false, db.ErrNotFound
}
func (t *Tx) GetAllMessagesIDsAsMap(ctx context.Context) (map[imap.InternalMessageID]struct{}, error) {
	out := map[imap.InternalMessageID]struct{}{}
	for _, m := range t.D.Msgs {
		out[m.ID] = struct{}{}
	}
	return out, nil
}

// ---------------- message writes ----------------

func (t *Tx) createMsg(req *db.CreateMessageReq) error {
	if t.D.Msg(req.InternalID) != nil || t.D.MsgByRemote(req.Message.ID) != nil {
		return ErrUnique
	}
	t.D.Msgs = append(t.D.Msgs, &MsgRow{ID: req.InternalID, Remote: req.Message.ID, Flags: req.Message.Flags.ToSliceUnsorted(), Date: req.Message.Date,
		Size: req.LiteralSize, Body: req.Body, Structure: req.Structure, Envelope: req.Envelope})
	return nil
}
func (t *Tx) CreateMessages(ctx context.Context, reqs ...*db.CreateMessageReq) error {
	if len(reqs) == 0 {
		return nil
	}
	if err := t.mutate(fmt.Sprintf("CreateMessages n=%d", len(reqs))); err != nil {
		return err
	}
	for _, r := range reqs {
		if err := t.createMsg(r); err != nil {
			return err
		}
	}
	return nil
}
func (t *Tx) CreateMessageAndAddToMailbox(ctx context.Context, box imap.InternalMailboxID, req *db.CreateMessageReq) (imap.UID, imap.FlagSet, error) {
	if err := t.mutate(fmt.Sprintf("CreateMessageAndAddToMailbox box=%v", box)); err != nil {
		return 0, imap.FlagSet{}, err
	}
	if err := t.createMsg(req); err != nil {
		return 0, imap.FlagSet{}, err
	}
	b := t.D.BoxByID(box)
	if b == nil {
		return 0, imap.FlagSet{}, fmt.Errorf("no such table")
	}
	b.LastUID = b.LastUID.Add(1)
	b.Rows = append(b.Rows, BoxRow{UID: b.LastUID, Msg: req.InternalID, Remote: req.Message.ID, Recent: true})
	return b.LastUID, req.Message.Flags.Add(imap.FlagRecent), nil
}
func (t *Tx) MarkMessageAsDeleted(ctx context.Context, id imap.InternalMessageID) error {
	if err := t.mutate("MarkMessageAsDeleted"); err != nil {
		return err
	}
	if m := t.D.Msg(id); m != nil {
		m.MarkedDeleted = true
	}
	return nil
}
func (t *Tx) MarkMessageAsDeletedAndAssignRandomRemoteID(ctx context.Context, id imap.InternalMessageID) error {
	if err := t.mutate("MarkMessageAsDeletedAndAssignRandomRemoteID"); err != nil {
		return err
	}
	if m := t.D.Msg(id); m != nil {
		m.MarkedDeleted = true
		m.Remote = imap.MessageID("DELETED-" + imap.NewInternalMessageID().String())
	}
	return nil
}
func (t *Tx) MarkMessageAsDeletedWithRemoteID(ctx context.Context, id imap.MessageID) error {
	if err := t.mutate("MarkMessageAsDeletedWithRemoteID"); err != nil {
		return err
	}
	if m := t.D.MsgByRemote(id); m != nil {
		m.MarkedDeleted = true
	}
	return nil
}

// DeleteMessages: deletes the message rows; ON DELETE CASCADE removes flags and mailbox membership.
func (t *Tx) DeleteMessages(ctx context.Context, ids []imap.InternalMessageID) error {
	if err := t.mutate(fmt.Sprintf("DeleteMessages n=%d", len(ids))); err != nil {
		return err
	}
	var keep []*MsgRow
	for _, m := range t.D.Msgs {
		rm := false
		for _, id := range ids {
			if id == m.ID {
				rm = true
			}
		}
		if !rm {
			keep = append(keep, m)
		}
	}
	t.D.Msgs = keep
	return nil
}
func (t *Tx) UpdateRemoteMessageID(ctx context.Context, id imap.InternalMessageID, remote imap.MessageID) error {
	if err := t.mutate("UpdateRemoteMessageID"); err != nil {
		return err
	}
	m := t.D.Msg(id)
	if m == nil {
		return fmt.Errorf("no values changed")
	}
	if o := t.D.MsgByRemote(remote); o != nil && o != m {
		return ErrUnique
	}
	m.Remote = remote
	for _, b := range t.D.Boxes {
		if r := b.Row(id); r != nil {
			r.Remote = remote
		}
	}
	return nil
}

// AddFlagToMessages: INSERT OR IGNORE (id, flag): byte-exact on the flag value (a second spelling can coexist).
func (t *Tx) AddFlagToMessages(ctx context.Context, ids []imap.InternalMessageID, flag string) error {
	if err := t.mutate(fmt.Sprintf("AddFlagToMessages n=%d %s", len(ids), flag)); err != nil {
		return err
	}
	for _, id := range ids {
		m := t.D.Msg(id)
		if m == nil {
			return fmt.Errorf("FOREIGN KEY constraint failed")
		}
		has := false
		for _, f := range m.Flags {
			if f == flag {
				has = true
			}
		}
		if !has {
			m.Flags = append(m.Flags, flag)
		}
	}
	return nil
}

// RemoveFlagFromMessages: DELETE ... WHERE value = ? COLLATE NOCASE : ASCII case-insensitive on the flag value.
// (VerifC03Statements checks that the statement really carries the collation this contract relies on.)
func (t *Tx) RemoveFlagFromMessages(ctx context.Context, ids []imap.InternalMessageID, flag string) error {
	if err := t.mutate(fmt.Sprintf("RemoveFlagFromMessages n=%d %s", len(ids), flag)); err != nil {
		return err
	}
	for _, id := range ids {
		if m := t.D.Msg(id); m != nil {
			var keep []string
			for _, f := range m.Flags {
				if !strings.EqualFold(f, flag) {
					keep = append(keep, f)
				}
			}
			m.Flags = keep
		}
	}
	return nil
}

// SetFlagsOnMessages (intended semantics): the flag rows of each listed message become exactly the given values.
func (t *Tx) SetFlagsOnMessages(ctx context.Context, ids []imap.InternalMessageID, flags imap.FlagSet) error {
	if err := t.mutate(fmt.Sprintf("SetFlagsOnMessages n=%d", len(ids))); err != nil {
		return err
	}
	vals := flags.ToSliceUnsorted()
	for _, id := range ids {
		if m := t.D.Msg(id); m != nil {
			var keep []string
			for _, f := range m.Flags { // DELETE ... NOT IN (vals)
				for _, v := range vals {
					if v == f {
						keep = append(keep, f)
						break
					}
				}
			}
			for _, v := range vals { // INSERT OR IGNORE
				has := false
				for _, f := range keep {
					if f == v {
						has = true
					}
				}
				if !has {
					keep = append(keep, v)
				}
			}
			m.Flags = keep
		}
	}
	return nil
}

// ---------------- subscriptions ----------------

func (t *Tx) GetDeletedSubscriptionSet(ctx context.Context) (map[imap.MailboxID]*db.DeletedSubscription, error) {
	out := map[imap.MailboxID]*db.DeletedSubscription{}
	for i := range t.D.DeletedSubs {
		s := t.D.DeletedSubs[i]
		out[s.RemoteID] = &s
	}
	return out, nil
}
func (t *Tx) AddDeletedSubscription(ctx context.Context, name string, remote imap.MailboxID) error {
	if err := t.mutate("AddDeletedSubscription " + name); err != nil {
		return err
	}
	for i := range t.D.DeletedSubs {
		if t.D.DeletedSubs[i].Name == name {
			t.D.DeletedSubs[i].RemoteID = remote
			return nil
		}
	}
	t.D.DeletedSubs = append(t.D.DeletedSubs, db.DeletedSubscription{Name: name, RemoteID: remote})
	return nil
}
func (t *Tx) RemoveDeletedSubscriptionWithName(ctx context.Context, name string) (int, error) {
	if err := t.mutate("RemoveDeletedSubscriptionWithName " + name); err != nil {
		return 0, err
	}
	n := 0
	var keep []db.DeletedSubscription
	for _, s := range t.D.DeletedSubs {
		if s.Name == name {
			n++
		} else {
			keep = append(keep, s)
		}
	}
	t.D.DeletedSubs = keep
	return n, nil
}

// ---------------- connector settings (v2) ----------------
func (t *Tx) GetConnectorSettings(ctx context.Context) (string, bool, error) { return "", false, nil }
func (t *Tx) StoreConnectorSettings(ctx context.Context, settings string) error { return nil }
