package main

// Local fork/join: a function marked `summarise` is executed on all its paths under an undo
// journal; return values and heap effects that differ only in scalars are merged into ite terms.
// If anything prevents merging the call falls back to ordinary (forking) execution.

import (
	"go/token"
	"go/types"

	"golang.org/x/tools/go/ssa"
)

type sumResult struct {
	cond   *Term
	ret    Value
	writes map[*Value]Value
	order  []*Value
}

func resultType(fn *ssa.Function) types.Type {
	res := fn.Signature.Results()
	switch res.Len() {
	case 0:
		return nil
	case 1:
		return res.At(0).Type()
	}
	return res
}

func (e *Exec) callSummarised(caller *frame, pos token.Pos, fn *ssa.Function, fi *fnInfo, args []Value, env []Value) (res Value, ok bool) {
	pcLen := len(e.pc)
	jLen := len(e.journal)
	steps0 := e.steps
	d := e.dec
	var alts [][]decision
	replaying := false
	if d.pos < len(d.prefix) {
		rec := d.prefix[d.pos]
		d.pos++
		if rec.subAbort {
			return nil, false
		}
		if rec.sub == nil {
			panic("decision log out of sync at summarised call " + fi.name)
		}
		replaying = true
		// run recorded local paths in recorded order (alts is popped from the end)
		for i := len(rec.sub) - 1; i >= 0; i-- {
			alts = append(alts, rec.sub[i])
		}
	} else {
		alts = append(alts, nil)
	}
	var results []sumResult
	var record [][]decision
	cellT := map[*Value]types.Type{}
	abort := func() {
		e.model = nil
		e.local = nil
		e.truncPC(pcLen)
		e.undoTo(jLen)
		e.stats.SummaryAborts++
		if !replaying {
			d.prefix = append(d.prefix, decision{subAbort: true})
			d.pos++
		}
	}
	for len(alts) > 0 {
		if len(results) > e.P.cfg.MaxSummaryPaths {
			abort()
			return nil, false
		}
		prefix := alts[len(alts)-1]
		alts = alts[:len(alts)-1]
		var sink [][]decision
		if replaying {
			e.local = &decider{prefix: prefix, alts: &sink}
		} else {
			e.local = &decider{prefix: prefix, alts: &alts}
		}
		var ret Value
		failed := false
		func() {
			defer func() {
				if r := recover(); r != nil {
					switch r.(type) {
					case targetPanic, summaryAbort:
						failed = true
					case pathEnd:
						pe := r.(pathEnd)
						if pe.kind == endInfeasible {
							failed = true // should not happen; be safe
						} else {
							panic(r)
						}
					default:
						panic(r)
					}
				}
			}()
			ret = e.runFunc(caller, fn, fi, args, env)
		}()
		if failed {
			abort()
			return nil, false
		}
		if replaying && len(sink) > 0 {
			panic("summary replay produced fresh alternatives in " + fi.name)
		}
		record = append(record, e.local.prefix)
		// path condition of this local path
		cond := e.ctx.True
		for _, t := range e.pc[pcLen:] {
			cond = e.ctx.And(cond, t)
		}
		// collect final values of written cells, then undo
		sr := sumResult{cond: cond, ret: ret, writes: map[*Value]Value{}}
		for _, j := range e.journal[jLen:] {
			if j.undo != nil {
				// non-cell effects (maps, channels) cannot be merged
				abort()
				return nil, false
			}
			if _, seen := sr.writes[j.addr]; !seen {
				sr.order = append(sr.order, j.addr)
			}
			if j.T != nil {
				cellT[j.addr] = j.T
			}
			sr.writes[j.addr] = *j.addr
		}
		e.undoTo(jLen)
		e.truncPC(pcLen)
		results = append(results, sr)
	}
	if !replaying {
		d.prefix = append(d.prefix, decision{sub: record})
		d.pos++
	}
	e.local = nil
	e.model = nil
	e.steps = steps0 + (e.steps-steps0)/int64(len(results)+1)
	e.stats.Summaries++
	if len(results) == 1 {
		// single path: re-apply its writes
		for _, a := range results[0].order {
			e.setCell(a, results[0].writes[a])
		}
		return results[0].ret, true
	}
	conds := make([]*Term, len(results))
	rets := make([]Value, len(results))
	for i, r := range results {
		conds[i] = r.cond
		rets[i] = r.ret
	}
	merged, ok := e.mergeValues(conds, rets, resultType(fn))
	if !ok {
		e.stats.SummaryAborts++
		return nil, false
	}
	// merge writes
	var order []*Value
	seen := map[*Value]bool{}
	for _, r := range results {
		for _, a := range r.order {
			if !seen[a] {
				seen[a] = true
				order = append(order, a)
			}
		}
	}
	newVals := make([]Value, len(order))
	for k, a := range order {
		vals := make([]Value, len(results))
		for i, r := range results {
			if v, ok := r.writes[a]; ok {
				vals[i] = v
			} else {
				vals[i] = *a
			}
		}
		mv, ok := e.mergeValues(conds, vals, cellT[a])
		if !ok {
			e.stats.SummaryAborts++
			return nil, false
		}
		newVals[k] = mv
	}
	for k, a := range order {
		e.setCell(a, newVals[k])
	}
	return merged, true
}

// mergeValues builds ite(conds[0], vals[0], ite(conds[1], vals[1], ... vals[n-1])).
func (e *Exec) mergeValues(conds []*Term, vals []Value, t types.Type) (Value, bool) {
	first := vals[0]
	switch f := first.(type) {
	case nil:
		for _, v := range vals {
			if v != nil {
				return nil, false
			}
		}
		return nil, true
	case Sc:
		allSame := true
		var w uint8
		isBool := false
		for _, v := range vals {
			s, ok := v.(Sc)
			if !ok {
				return nil, false
			}
			if s != f {
				allSame = false
			}
			if s.T != nil {
				if s.T.W == 0 {
					isBool = true
				} else {
					w = s.T.W
				}
			}
		}
		if allSame {
			return f, true
		}
		var ki kindInfo
		if t != nil {
			ki = basicInfo(t)
		}
		if w == 0 && !isBool {
			if !ki.isInt && !ki.isBool {
				return nil, false // width unknown
			}
			w = ki.w
			isBool = ki.isBool
		}
		toT := func(s Sc) *Term {
			if s.T != nil {
				return s.T
			}
			if isBool {
				return e.ctx.Bool(s.C != 0)
			}
			return e.ctx.BV(s.C, w)
		}
		res := toT(vals[len(vals)-1].(Sc))
		for i := len(vals) - 2; i >= 0; i-- {
			res = e.ctx.Ite(conds[i], toT(vals[i].(Sc)), res)
		}
		if res.Op == OpConst {
			if isBool {
				return Sc{C: res.K}, true
			}
			if !ki.isInt {
				return nil, false
			}
			return Sc{C: canon(res.K, ki)}, true
		}
		return Sc{T: res}, true
	case Struct:
		out := make(Struct, len(f))
		for i := range f {
			col := make([]Value, len(vals))
			for k, v := range vals {
				s, ok := v.(Struct)
				if !ok || len(s) != len(f) {
					return nil, false
				}
				col[k] = s[i]
			}
			var ft types.Type
			if t != nil {
				if st, ok := t.Underlying().(*types.Struct); ok {
					ft = st.Field(i).Type()
				}
			}
			m, ok := e.mergeValues(conds, col, ft)
			if !ok {
				return nil, false
			}
			out[i] = m
		}
		return out, true
	case Tuple:
		out := make(Tuple, len(f))
		for i := range f {
			col := make([]Value, len(vals))
			for k, v := range vals {
				s, ok := v.(Tuple)
				if !ok || len(s) != len(f) {
					return nil, false
				}
				col[k] = s[i]
			}
			var ft types.Type
			if t != nil {
				if tt, ok := t.(*types.Tuple); ok {
					ft = tt.At(i).Type()
				}
			}
			m, ok := e.mergeValues(conds, col, ft)
			if !ok {
				return nil, false
			}
			out[i] = m
		}
		return out, true
	case Array:
		out := make(Array, len(f))
		for i := range f {
			col := make([]Value, len(vals))
			for k, v := range vals {
				s, ok := v.(Array)
				if !ok || len(s) != len(f) {
					return nil, false
				}
				col[k] = s[i]
			}
			var ft types.Type
			if t != nil {
				if at, ok := t.Underlying().(*types.Array); ok {
					ft = at.Elem()
				}
			}
			m, ok := e.mergeValues(conds, col, ft)
			if !ok {
				return nil, false
			}
			out[i] = m
		}
		return out, true
	case Iface:
		col := make([]Value, len(vals))
		for k, v := range vals {
			it, ok := v.(Iface)
			if !ok || !sameType(it.t, f.t) {
				return nil, false
			}
			col[k] = it.v
		}
		if f.t == nil {
			return f, true
		}
		m, ok := e.mergeValues(conds, col, f.t)
		if !ok {
			return nil, false
		}
		return Iface{t: f.t, v: m}, true
	case Str:
		for _, v := range vals {
			s, ok := v.(Str)
			if !ok || s.Len() != f.Len() || s.opaque != f.opaque {
				return nil, false
			}
		}
		if f.opaque {
			return f, true
		}
		b := make([]Sc, f.Len())
		for i := range b {
			col := make([]Value, len(vals))
			for k, v := range vals {
				col[k] = v.(Str).At(i)
			}
			// bytes: make widths explicit
			same := true
			for _, c := range col {
				if c.(Sc) != col[0].(Sc) {
					same = false
				}
			}
			if same {
				b[i] = col[0].(Sc)
				continue
			}
			res := e.term(col[len(col)-1].(Sc), kindInfo{w: 8, isInt: true})
			for k := len(col) - 2; k >= 0; k-- {
				res = e.ctx.Ite(conds[k], e.term(col[k].(Sc), kindInfo{w: 8, isInt: true}), res)
			}
			b[i] = e.fromTermT(res, kindInfo{w: 8, isInt: true})
		}
		return mkStrBytes(b), true
	case *Value:
		for _, v := range vals {
			if p, ok := v.(*Value); !ok || p != f {
				return nil, false
			}
		}
		return f, true
	case Slice:
		for _, v := range vals {
			s, ok := v.(Slice)
			if !ok || len(s) != len(f) || cap(s) != cap(f) {
				return nil, false
			}
			if len(s) > 0 && &s[0] != &f[0] {
				return nil, false
			}
			if (s == nil) != (f == nil) {
				return nil, false
			}
		}
		return f, true
	case *ssa.Function:
		for _, v := range vals {
			if p, ok := v.(*ssa.Function); !ok || p != f {
				return nil, false
			}
		}
		return f, true
	case *Map:
		for _, v := range vals {
			if p, ok := v.(*Map); !ok || p != f {
				return nil, false
			}
		}
		return f, true
	}
	return nil, false
}
