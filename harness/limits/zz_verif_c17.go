package limits

import "github.com/ProtonMail/gluon/imap"

// VerifC17Limits: the four limit predicates with every input symbolic at full width.
// accepted  =>  the resulting count/UID does not exceed the configured maximum (in unbounded arithmetic)
// fits      =>  accepted (operations that fit are not refused)
func VerifC17Limits() {
	l := NewIMAPLimits(vsymUint32("maxMailboxes"), vsymUint32("maxMessages"), imap.UID(vsymUint32("maxUID")), imap.UID(vsymUint32("maxUIDValidity")))
	switch vsymChoice("which", 4) {
	case 0:
		count := vsymInt("mailboxCount")
		vsymAssume(count >= 0)
		err := l.CheckMailBoxCount(count)
		// creating one more mailbox: fits iff count+1 <= max  <=>  count < max
		fits := int64(count) < l.maxMailboxCount
		vsymAssert(vsymImplies(err == nil, fits), "accepted mailbox creation stays within maxMailboxCount")
		vsymAssert(vsymImplies(fits, err == nil), "fitting mailbox creation is accepted")
	case 1:
		existing := vsymInt("existingCount")
		add := vsymInt("newCount")
		vsymAssume(existing >= 0)
		vsymAssume(add >= 0)
		err := l.CheckMailBoxMessageCount(existing, add)
		// existing+add <= max without overflow: existing <= max && add <= max-existing
		fits := vsymAnd(int64(existing) <= l.maxMessageCountPerMailbox, int64(add) <= l.maxMessageCountPerMailbox-int64(existing))
		vsymAssert(vsymImplies(err == nil, fits), "accepted add keeps message count within the maximum (no wrap-around)")
		vsymAssert(vsymImplies(fits, err == nil), "fitting add is accepted")
	case 2:
		uid := vsymUint32("existingUID")
		add := vsymInt("newCount")
		vsymAssume(add >= 0)
		err := l.CheckUIDCount(imap.UID(uid), add)
		fits := vsymAnd(int64(uid) <= l.maxUID, int64(add) <= l.maxUID-int64(uid))
		vsymAssert(vsymImplies(err == nil, fits), "accepted add keeps UIDs within maxUID (no wrap-around)")
		vsymAssert(vsymImplies(fits, err == nil), "fitting UID range is accepted")
	case 3:
		v := vsymUint32("uidValidity")
		err := l.CheckUIDValidity(imap.UID(v))
		fits := int64(v) < l.maxUIDValidity
		vsymAssert(vsymImplies(err == nil, fits), "accepted UIDVALIDITY below maximum")
		vsymAssert(vsymImplies(fits, err == nil), "UIDVALIDITY below maximum accepted")
	}
}
