package async

// VerifC02Queue: the update transport between a writer and a session (async.QueuedChannel) executed from its real
// code, consumer goroutine included (cooperative goroutine model of the engine): a producer enqueues k bursts of
// symbolic size while the reader takes symbolic numbers of items off the channel in between; the channel has a small
// symbolic buffer, so the consumer goroutine blocks in the middle of forwarding.  What the reader gets, followed by
// what it reads after Close, must be exactly what was enqueued, in order (FIFO, loss-free, no duplicates), and the consumer goroutine must have ended.
func VerifC02Queue() {
	vsymGoroutineBase()
	k := vsymParam("k")
	maxBurst := vsymParam("burst")
	buf := vsymChoice("chanBuffer", 3)
	qcap := vsymChoice("queueCap", 3) * 2
	q := NewQueuedChannel[int](buf, qcap, NoopPanicHandler{}, "verif")
	ch := q.GetChannel()
	next := 0
	var got []int
	take := func(n int) {
		for i := 0; i < n; i++ {
			vsymSched()
			select {
			case v, ok := <-ch:
				if !ok {
					return
				}
				got = append(got, v)
			default:
				return
			}
		}
	}
	for step := 0; step < k; step++ {
		n := 1 + vsymChoice("burstLen", maxBurst)
		items := make([]int, n)
		for i := range items {
			items[i] = next
			next++
		}
		vsymAssert(q.Enqueue(items...), "Enqueue on an open queue succeeds")
		vsymSched()
		take(vsymChoice("reads", 4))
	}
	q.Close()
	for i := 0; i < next+2; i++ {
		vsymSched()
		v, ok := <-ch
		if !ok {
			break
		}
		got = append(got, v)
	}
	vsymCover("queue-drained")
	vsymAssert(vsymLiveGoroutines() == 0, "after Close and draining the channel the consumer goroutine has ended (no leak)")
	vsymAssert(len(got) == next, "every enqueued update is delivered exactly once (none lost, none duplicated)")
	for i := range got {
		if i < next {
			vsymAssert(got[i] == i, "updates are delivered in the order they were enqueued")
		}
	}
}
