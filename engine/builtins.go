package main

import (
	"fmt"
	"go/token"
	"go/types"
	"unicode/utf8"

	"golang.org/x/tools/go/ssa"
)

func (e *Exec) callBuiltin(caller *frame, pos token.Pos, fn *ssa.Builtin, args []Value) Value {
	switch fn.Name() {
	case "append":
		if len(args) == 1 {
			return args[0]
		}
		dst := args[0].(Slice)
		var src []Value
		switch s := args[1].(type) {
		case Str:
			if s.opaque {
				e.unsupported("append(bytes, opaque string...)")
			}
			src = make([]Value, s.Len())
			for i := range src {
				src[i] = s.At(i)
			}
		case Slice:
			src = s
		}
		if len(src) == 0 {
			return dst
		}
		n := len(dst)
		if n+len(src) <= cap(dst) {
			// in place: writes cells beyond len
			r := dst[:n+len(src)]
			for i, v := range src {
				e.store(nil, &r[n+i], copyVal(v))
			}
			return r
		}
		ncap := 2 * cap(dst)
		if ncap < n+len(src) {
			ncap = n + len(src)
		}
		r := make(Slice, n+len(src), ncap)
		for i, v := range dst {
			r[i] = copyVal(v)
		}
		for i, v := range src {
			r[n+i] = copyVal(v)
		}
		// fill spare capacity with zero values of the element type
		if ncap > n+len(src) {
			et := fn.Type().(*types.Signature).Params().At(0).Type().Underlying().(*types.Slice).Elem()
			full := r[:ncap]
			for i := n + len(src); i < ncap; i++ {
				full[i] = zero(et)
			}
		}
		return r

	case "copy":
		dst := args[0].(Slice)
		var n int
		switch s := args[1].(type) {
		case Str:
			if s.opaque {
				e.unsupported("copy(bytes, opaque string)")
			}
			n = min(len(dst), s.Len())
			for i := 0; i < n; i++ {
				e.store(nil, &dst[i], s.At(i))
			}
		case Slice:
			n = min(len(dst), len(s))
			// handle overlap like memmove
			tmp := make([]Value, n)
			for i := 0; i < n; i++ {
				tmp[i] = copyVal(s[i])
			}
			for i := 0; i < n; i++ {
				e.store(nil, &dst[i], tmp[i])
			}
		}
		return mkInt(int64(n))

	case "close":
		e.chanClose(args[0].(*Chan))
		return nil

	case "delete":
		m := args[0].(*Map)
		if m != nil {
			e.mapDelete(m, args[1])
		}
		return nil

	case "clear":
		switch x := args[0].(type) {
		case *Map:
			if x != nil {
				for _, en := range x.entries {
					if !en.deleted {
						e.mapDeleteEntry(x, en)
					}
				}
			}
		case Slice:
			et := fn.Type().(*types.Signature).Params().At(0).Type().Underlying().(*types.Slice).Elem()
			for i := range x {
				e.store(nil, &x[i], zero(et))
			}
		}
		return nil

	case "print", "println":
		return nil

	case "len":
		switch x := args[0].(type) {
		case Str:
			if x.opaque {
				e.unsupported("len(opaque string)")
			}
			return mkInt(int64(x.Len()))
		case Array:
			return mkInt(int64(len(x)))
		case *Value:
			return mkInt(int64(len((*x).(Array))))
		case Slice:
			return mkInt(int64(len(x)))
		case *Map:
			if x == nil {
				return mkInt(0)
			}
			return mkInt(int64(x.live))
		case *Chan:
			if x == nil {
				return mkInt(0)
			}
			return mkInt(int64(len(x.buf)))
		}
		panic(fmt.Sprintf("len of %T", args[0]))

	case "cap":
		switch x := args[0].(type) {
		case Array:
			return mkInt(int64(len(x)))
		case *Value:
			return mkInt(int64(len((*x).(Array))))
		case Slice:
			return mkInt(int64(cap(x)))
		case *Chan:
			if x == nil {
				return mkInt(0)
			}
			return mkInt(int64(x.cap))
		}
		panic(fmt.Sprintf("cap of %T", args[0]))

	case "min", "max":
		t := fn.Type().(*types.Signature).Params().At(0).Type()
		r := args[0]
		for _, a := range args[1:] {
			var lt token.Token = token.LSS
			if fn.Name() == "max" {
				lt = token.GTR
			}
			c := e.binop(lt, t, a, r).(Sc)
			if c.T == nil {
				if c.C != 0 {
					r = a
				}
				continue
			}
			rs, ok1 := r.(Sc)
			as, ok2 := a.(Sc)
			if !ok1 || !ok2 {
				if e.branch(c) {
					r = a
				}
				continue
			}
			ki := basicInfo(t)
			r = e.fromTermT(e.ctx.Ite(c.T, e.term(as, ki), e.term(rs, ki)), ki)
		}
		return r

	case "panic":
		panic(targetPanic{args[0]})

	case "recover":
		return e.doRecover(caller)

	case "ssa:wrapnilchk":
		recv := args[0]
		if p, ok := recv.(*Value); ok && p == nil {
			e.rtPanic(fmt.Sprintf("value method %s.%s called using nil pointer", describe(args[1]), describe(args[2])))
		}
		return recv

	case "ssa:deferstack":
		return &caller.defers

	case "String": // unsafe.String(ptr, len)
		n := int(e.concInt(args[1].(Sc), "unsafe.String len"))
		switch p := args[0].(type) {
		case sliceData:
			b := make([]Sc, n)
			for i := range b {
				b[i] = p.sl[i].(Sc)
			}
			return mkStrBytes(b)
		case *Value:
			if p == nil || n == 0 {
				return Str{}
			}
		}
		e.unsupported("unsafe.String on %T", args[0])

	case "SliceData":
		return sliceData{sl: args[0].(Slice)}

	case "StringData":
		s := args[0].(Str)
		return sliceData{st: &s}

	case "Slice": // unsafe.Slice(ptr, len)
		n := int(e.concInt(args[1].(Sc), "unsafe.Slice len"))
		switch p := args[0].(type) {
		case sliceData:
			if p.st != nil {
				r := make(Slice, n)
				for i := range r {
					r[i] = p.st.At(i)
				}
				return r
			}
			return p.sl[:n]
		}
		e.unsupported("unsafe.Slice on %T", args[0])
	}
	panic("unknown built-in: " + fn.Name())
}

// ---------- maps ----------

func (e *Exec) mapFind(m *Map, key Value) *mapEntry {
	if m == nil {
		return nil
	}
	if ck, ok := concreteKey(key); ok {
		if en, ok := m.idx[ck]; ok {
			return en
		}
		if m.symKeys == 0 {
			return nil
		}
		// compare against symbolic-key entries only
		for _, en := range m.entries {
			if en.deleted {
				continue
			}
			if _, conc := concreteKey(en.k); conc {
				continue
			}
			if e.branch(e.equals(m.keyT, en.k, key)) {
				return en
			}
		}
		return nil
	}
	for _, en := range m.entries {
		if en.deleted {
			continue
		}
		if e.branch(e.equals(m.keyT, en.k, key)) {
			return en
		}
	}
	return nil
}

func (e *Exec) mapInsert(m *Map, key, val Value) {
	if en := e.mapFind(m, key); en != nil {
		old := en.v
		e.journalUndo(func() { en.v = old })
		en.v = val
		return
	}
	en := &mapEntry{k: key, v: val}
	ck, conc := concreteKey(key)
	m.entries = append(m.entries, en)
	m.live++
	if conc {
		m.idx[ck] = en
	} else {
		m.symKeys++
	}
	e.journalUndo(func() {
		m.entries = m.entries[:len(m.entries)-1]
		m.live--
		if conc {
			delete(m.idx, ck)
		} else {
			m.symKeys--
		}
	})
}

func (e *Exec) mapDelete(m *Map, key Value) {
	if en := e.mapFind(m, key); en != nil {
		e.mapDeleteEntry(m, en)
	}
}

func (e *Exec) mapDeleteEntry(m *Map, en *mapEntry) {
	ck, conc := concreteKey(en.k)
	en.deleted = true
	m.live--
	if conc {
		delete(m.idx, ck)
	} else {
		m.symKeys--
	}
	e.journalUndo(func() {
		en.deleted = false
		m.live++
		if conc {
			m.idx[ck] = en
		} else {
			m.symKeys++
		}
	})
}

func (e *Exec) lookup(fr *frame, instr *ssa.Lookup) Value {
	x := fr.get(instr.X)
	idx := fr.get(instr.Index)
	switch x := x.(type) {
	case Str: // string index via Lookup
		return e.indexStr(x, idx.(Sc), instr.Index.Type())
	case *Map:
		vt := instr.X.Type().Underlying().(*types.Map).Elem()
		en := e.mapFind(x, idx)
		var v Value
		if en != nil {
			v = copyVal(en.v)
		} else {
			v = zero(vt)
		}
		if instr.CommaOk {
			return Tuple{v, mkBool(en != nil)}
		}
		return v
	}
	panic(fmt.Sprintf("lookup on %T", x))
}

func (e *Exec) indexStr(x Str, idx Sc, it types.Type) Value {
	if x.opaque {
		e.unsupported("index of opaque (formatted) string")
	}
	if idx.T != nil {
		if v, ok := e.symSelect(idx, x.Len(), types.Typ[types.Uint8], func(i int) Value { return x.At(i) }); ok {
			return v
		}
	}
	return x.At(e.checkIndex(idx, it, x.Len(), true))
}

// ---------- range iterators ----------

type mapIter struct {
	m   *Map
	pos int
	n   int // entries existing at start; entries added during iteration are not visited
}

type strIter struct {
	s   Str
	pos int
}

func (e *Exec) rangeIter(x Value, t types.Type) Value {
	switch x := x.(type) {
	case *Map:
		if x == nil {
			return &mapIter{}
		}
		return &mapIter{m: x, n: len(x.entries)}
	case Str:
		if x.opaque {
			e.unsupported("range over opaque (formatted) string")
		}
		return &strIter{s: x}
	}
	panic(fmt.Sprintf("cannot range over %T", x))
}

func (e *Exec) iterNext(it Value) Value {
	switch it := it.(type) {
	case *mapIter:
		if it.m != nil {
			for it.pos < it.n && it.pos < len(it.m.entries) {
				en := it.m.entries[it.pos]
				it.pos++
				if en.deleted {
					continue
				}
				return Tuple{mkBool(true), en.k, copyVal(en.v)}
			}
		}
		return Tuple{mkBool(false), nil, nil}
	case *strIter:
		if it.pos >= it.s.Len() {
			return Tuple{mkBool(false), mkInt(0), Sc{}}
		}
		i := it.pos
		if it.s.b == nil {
			r, sz := utf8.DecodeRuneInString(it.s.s[i:])
			it.pos += sz
			return Tuple{mkBool(true), mkInt(int64(i)), Sc{C: uint64(int64(r))}}
		}
		b := it.s.At(i)
		if b.T == nil && b.C < 0x80 {
			it.pos++
			return Tuple{mkBool(true), mkInt(int64(i)), b}
		}
		if b.T != nil && e.branch(e.boolSc(e.ctx.Ult(b.T, e.ctx.BV(0x80, 8)))) {
			it.pos++
			return Tuple{mkBool(true), mkInt(int64(i)), e.widen(b, kindInfo{w: 8, isInt: true}, kindInfo{w: 32, isInt: true, signed: true})}
		}
		// multi-byte: interpret the real utf8.DecodeRuneInString on the tail
		r, sz := e.decodeRune(it.s.Sub(i, it.s.Len()))
		it.pos += sz
		return Tuple{mkBool(true), mkInt(int64(i)), r}
	}
	panic(fmt.Sprintf("next on %T", it))
}

func (e *Exec) decodeRune(s Str) (Sc, int) {
	pkg := e.P.prog.ImportedPackage("unicode/utf8")
	if pkg == nil {
		e.unsupported("unicode/utf8 not loaded for symbolic rune decoding")
	}
	fn := pkg.Func("DecodeRuneInString")
	res := e.callSSA(nil, token.NoPos, fn, []Value{s}, nil).(Tuple)
	sz := e.concInt(res[1].(Sc), "rune size")
	return res[0].(Sc), int(sz)
}
