package session

import (
	"context"

	"github.com/ProtonMail/gluon/events"
	"github.com/ProtonMail/gluon/imap"
	"github.com/ProtonMail/gluon/internal/backend"
	"github.com/ProtonMail/gluon/version"
)

// VerifC02WireConnector: a client on the wire (real Session.serve loop) has INBOX selected while the **connector**
// delivers updates through the real backend appliers (user.apply -> applyMessagesCreated / applyMessageFlagsUpdated /
// applyMessageDeleted -> userDBWrite -> queueStateUpdate -> the real update queue): a new message arrives, the flags of
// a message change, a message is deleted remotely.  The client keeps its mirror from the untagged lines of its NOOPs
// and STOREs, probes with FETCH 1:* (UID FLAGS) on the wire after each of its commands, and at the end a fresh EXAMINE
// client's FETCH 1:* (UID FLAGS) must equal what the long-lived session answers after NOOP.
func VerifC02WireConnector() {
	k := vsymParam("k")
	be := backend.VerifNewBackendUsers()
	ctx := context.Background()
	mk := func(id int) *verifPipeConn {
		conn := &verifPipeConn{in: make(chan []byte, 4)}
		s := New(conn, be, id, version.Info{}, nil, make(chan events.Event, 256), 0, nil)
		go func() { _ = s.serve(ctx) }()
		return conn
	}
	oc := mk(1)
	vsymAssert(c1Tagged(oc.send("l LOGIN alice pw1"), "l", "OK"), "LOGIN is answered OK")
	vsymAssert(c1Tagged(oc.send("s SELECT INBOX"), "s", "OK"), "SELECT is answered OK")
	mirror := &c1Mirror{}
	for _, l := range oc.lines {
		mirror.applyDecoded(c1DecodeLine(l))
	}
	probe := func() {
		ans := oc.send("p FETCH 1:* (UID FLAGS)")
		n := 0
		for _, l := range ans {
			d := c1DecodeLine(l)
			if d.Kind == 3 && d.HasUID && d.HasFlags && n < len(mirror.ents) && int(d.N) == n+1 {
				e := &mirror.ents[n]
				if e.uidKnown {
					vsymAssert(e.uid == d.UID, "sequence number still maps to the UID the client learned")
				}
				if e.flagsKnown {
					vsymAssert(e.flags == c1Mask(d.Flags), "flags the client learned equal the flags the server answers")
				}
				*e = c1Ent{uidKnown: true, uid: d.UID, flagsKnown: true, flags: c1Mask(d.Flags)}
				n++
				continue
			}
			mirror.applyDecoded(d)
		}
		vsymAssert(n == len(mirror.ents), "the server answers for exactly the messages it announced (count)")
	}
	probe()
	created := 0
	for step := 0; step < k; step++ {
		switch vsymChoice("event", 5) {
		case 0: // the client: NOOP
			for _, l := range oc.send("n NOOP") {
				mirror.applyDecoded(c1DecodeLine(l))
			}
			probe()
		case 1: // the client: STORE 1 +FLAGS (\Flagged)
			if len(mirror.ents) == 0 {
				vsymAssume(false)
			}
			for _, l := range oc.send("t STORE 1 +FLAGS (\\Flagged)") {
				mirror.applyDecoded(c1DecodeLine(l))
			}
			probe()
		case 2: // connector: a new message arrives in INBOX
			if created >= 2 {
				vsymAssume(false)
			}
			created++
			id := imap.MessageID("rm-conn-" + string(rune('0'+created)))
			vsymAssert(backend.VerifApplyUpdate(be, "id-alice", backend.VerifNewMessageCreated(id, backend.VerifLit2, "mb-inbox-alice")) == nil, "MessagesCreated applies")
			vsymSched()
			vsymCover("connector-created")
		case 3: // connector: the flags of alice's first message change
			fl := []imap.FlagSet{imap.NewFlagSet(), imap.NewFlagSet(imap.FlagSeen), imap.NewFlagSet(imap.FlagSeen, imap.FlagFlagged)}[vsymChoice("connFlags", 3)]
			vsymAssert(backend.VerifApplyUpdate(be, "id-alice", imap.NewMessageFlagsUpdated("rm-alice", fl)) == nil, "MessageFlagsUpdated applies")
			vsymSched()
		case 4: // connector: alice's first message is deleted remotely
			vsymAssert(backend.VerifApplyUpdate(be, "id-alice", imap.NewMessagesDeleted("rm-alice")) == nil, "MessagesDeleted applies")
			vsymSched()
		}
	}
	for _, l := range oc.send("n NOOP") {
		mirror.applyDecoded(c1DecodeLine(l))
	}
	probe()
	fc := mk(2)
	vsymAssert(c1Tagged(fc.send("l LOGIN alice pw1"), "l", "OK"), "LOGIN is answered OK")
	vsymAssert(c1Tagged(fc.send("s EXAMINE INBOX"), "s", "OK"), "EXAMINE is answered OK")
	n := 0
	for _, l := range fc.send("f FETCH 1:* (UID FLAGS)") {
		d := c1DecodeLine(l)
		if d.Kind != 3 || !d.HasUID || !d.HasFlags {
			continue
		}
		if n < len(mirror.ents) {
			vsymAssert(mirror.ents[n].uid == d.UID, "after NOOP the session shows the same UIDs in the same order as a fresh session")
			vsymAssert(mirror.ents[n].flags == c1Mask(d.Flags), "after NOOP the session shows the same flags as a fresh session (ignoring \\Recent)")
		}
		n++
	}
	vsymAssert(n == len(mirror.ents), "after NOOP the session shows exactly the messages a fresh session sees")
	vsymCover("wire-fresh-compared")
}
