package main

import (
	"os"
	"fmt"
	"go/types"

	"golang.org/x/tools/go/ssa"
)

var vsymIntrinsics map[string]intrinsicFn

func (e *Exec) vsymName(v Value) string {
	return e.mustGoString(v, "vsym name")
}

func init() {
	mkVar := func(t types.Type) intrinsicFn {
		ki := basicInfo(t)
		return func(e *Exec, c *frame, fn *ssa.Function, a []Value) Value {
			name := e.vsymName(a[0])
			if ki.isBool {
				return Sc{T: e.freshVar(name, 0)}
			}
			return Sc{T: e.freshVar(name, ki.w)}
		}
	}
	vsymIntrinsics = map[string]intrinsicFn{
		"vsymInt":    mkVar(types.Typ[types.Int]),
		"vsymInt64":  mkVar(types.Typ[types.Int64]),
		"vsymInt32":  mkVar(types.Typ[types.Int32]),
		"vsymUint64": mkVar(types.Typ[types.Uint64]),
		"vsymUint32": mkVar(types.Typ[types.Uint32]),
		"vsymUint16": mkVar(types.Typ[types.Uint16]),
		"vsymByte":   mkVar(types.Typ[types.Uint8]),
		"vsymBool":   mkVar(types.Typ[types.Bool]),
		// vsymChoice(name, n) int: concrete result in [0,n), explored by forking
		"vsymChoice": func(e *Exec, c *frame, fn *ssa.Function, a []Value) Value {
			name := e.vsymName(a[0])
			n := int(e.concInt(a[1].(Sc), "vsymChoice n"))
			if n <= 0 {
				panic(pathEnd{endInfeasible, "vsymChoice with n<=0"})
			}
			if n == 1 {
				return mkInt(0)
			}
			v := e.freshVar(name, 64)
			e.assume(e.boolSc(e.ctx.Ult(v, e.ctx.BV(uint64(n), 64))))
			for k := 0; k < n-1; k++ {
				if e.branch(Sc{T: e.ctx.Eq(v, e.ctx.BV(uint64(k), 64))}) {
					return mkInt(int64(k))
				}
			}
			return mkInt(int64(n - 1))
		},
		// vsymRange(name, lo, hi) int: symbolic int constrained to lo..hi (inclusive), not concretised
		"vsymRange": func(e *Exec, c *frame, fn *ssa.Function, a []Value) Value {
			name := e.vsymName(a[0])
			lo, hi := e.concInt(a[1].(Sc), "lo"), e.concInt(a[2].(Sc), "hi")
			v := e.freshVar(name, 64)
			cx := e.ctx
			e.assume(e.boolSc(cx.And(cx.Sle(cx.BV(uint64(lo), 64), v), cx.Sle(v, cx.BV(uint64(hi), 64)))))
			return Sc{T: v}
		},
		// vsymBytes(name, n) []byte
		"vsymBytes": func(e *Exec, c *frame, fn *ssa.Function, a []Value) Value {
			name := e.vsymName(a[0])
			n := int(e.concInt(a[1].(Sc), "vsymBytes n"))
			s := make(Slice, n)
			for i := range s {
				s[i] = Sc{T: e.freshVar(fmt.Sprintf("%s[%d]", name, i), 8)}
			}
			return s
		},
		"vsymAssume": func(e *Exec, c *frame, fn *ssa.Function, a []Value) Value {
			e.assume(a[0].(Sc))
			return nil
		},
		"vsymAssert": func(e *Exec, c *frame, fn *ssa.Function, a []Value) Value {
			e.obligation(c, a[0].(Sc), e.vsymName(a[1]))
			return nil
		},
		"vsymCover": func(e *Exec, c *frame, fn *ssa.Function, a []Value) Value {
			if e.local != nil {
				panic(summaryAbort{"cover in summary"})
			}
			e.covers[e.vsymName(a[0])]++
			return nil
		},
		"vsymSched": func(e *Exec, c *frame, fn *ssa.Function, a []Value) Value {
			// hand-over point: every other goroutine runs until none can make progress
			if e.cur != nil {
				e.unsupported("vsymSched called from a child goroutine")
			}
			e.runOthers()
			return nil
		},
		// ghost counters shared between engine intrinsics and harness stubs
		"vsymGhostGet": func(e *Exec, c *frame, fn *ssa.Function, a []Value) Value {
			return mkInt(e.ghost[a[0].(Str).s])
		},
		"vsymGhostAdd": func(e *Exec, c *frame, fn *ssa.Function, a []Value) Value {
			e.ghost[a[0].(Str).s]++
			return nil
		},
		"vsymGhostSet": func(e *Exec, c *frame, fn *ssa.Function, a []Value) Value {
			e.ghost[a[0].(Str).s] = e.concInt(a[1].(Sc), "vsymGhostSet")
			return nil
		},
		"vsymGoroutineBase": func(e *Exec, c *frame, fn *ssa.Function, a []Value) Value { return nil },
		"vsymLiveGoroutines": func(e *Exec, c *frame, fn *ssa.Function, a []Value) Value {
			if e.cur != nil {
				e.unsupported("vsymLiveGoroutines called from a child goroutine")
			}
			e.runOthers()
			n := 0
			for _, g := range e.gors {
				if !g.done {
					n++
				}
			}
			return mkInt(int64(n))
		},
		"vsymCut": func(e *Exec, c *frame, fn *ssa.Function, a []Value) Value {
			e.cut("harness:" + e.vsymName(a[0]))
			return nil
		},
		// vsymKnownClear(tag): obligations from here on no longer belong to the known-finding class tag
		"vsymKnownClear": func(e *Exec, c *frame, fn *ssa.Function, a []Value) Value {
			delete(e.known, e.vsymName(a[0]))
			return nil
		},
		// vsymKnown(tag, cond): from here on, violations on this path under cond belong to known-finding class tag
		"vsymKnown": func(e *Exec, c *frame, fn *ssa.Function, a []Value) Value {
			tag := e.vsymName(a[0])
			cond := a[1].(Sc)
			if old, ok := e.known[tag]; ok {
				cond = e.or(old, cond)
			}
			e.known[tag] = cond
			return nil
		},
		// vsymParam(name) int: concrete harness parameter from the spec
		"vsymParam": func(e *Exec, c *frame, fn *ssa.Function, a []Value) Value {
			name := e.vsymName(a[0])
			return mkInt(int64(e.P.cfg.Params[name])) // a parameter that is not given is 0
		},
		// vsymDepth() int: current interpreted call depth (ghost; 0 natively)
		"vsymDepth": func(e *Exec, c *frame, fn *ssa.Function, a []Value) Value {
			if c == nil {
				return mkInt(0)
			}
			return mkInt(int64(c.depth))
		},
		// vsymMaxDepth(): deepest interpreted call depth reached so far on this path (ghost; 0 natively)
		"vsymMaxDepth": func(e *Exec, c *frame, fn *ssa.Function, a []Value) Value { return mkInt(int64(e.maxDepthSeen)) },
		// vsymIsSym(): true under the engine, false natively
		"vsymIsSym": func(e *Exec, c *frame, fn *ssa.Function, a []Value) Value { return mkBool(true) },
		// vsymConcInt(x): fork over the feasible values of x (bounded)
		"vsymConcInt": func(e *Exec, c *frame, fn *ssa.Function, a []Value) Value {
			return mkInt(e.concInt(a[0].(Sc), "vsymConcInt"))
		},
		"vsymAnd": func(e *Exec, c *frame, fn *ssa.Function, a []Value) Value { return e.and(a[0].(Sc), a[1].(Sc)) },
		"vsymOr":  func(e *Exec, c *frame, fn *ssa.Function, a []Value) Value { return e.or(a[0].(Sc), a[1].(Sc)) },
		"vsymNot": func(e *Exec, c *frame, fn *ssa.Function, a []Value) Value { return e.not(a[0].(Sc)) },
		"vsymImplies": func(e *Exec, c *frame, fn *ssa.Function, a []Value) Value {
			return e.or(e.not(a[0].(Sc)), a[1].(Sc))
		},
		"vsymIteInt": func(e *Exec, c *frame, fn *ssa.Function, a []Value) Value {
			cnd, x, y := a[0].(Sc), a[1].(Sc), a[2].(Sc)
			if cnd.T == nil {
				if cnd.C != 0 {
					return x
				}
				return y
			}
			ki := kindInfo{w: 64, isInt: true, signed: true}
			return e.fromTermT(e.ctx.Ite(cnd.T, e.term(x, ki), e.term(y, ki)), ki)
		},
		// vsymLog(label, x): record a description of a value in the path sample (debug aid)
		"vsymLog": func(e *Exec, c *frame, fn *ssa.Function, a []Value) Value {
			if os.Getenv("VERIF_LOG") != "" {
				if st, ok := a[1].(Str); ok && st.b == nil {
					fmt.Fprintf(os.Stderr, "vsymLog: %s %q\n", e.vsymName(a[0]), st.s)
				} else if it, ok := a[1].(Iface); ok {
					if st, ok := it.v.(Str); ok && st.b == nil {
						fmt.Fprintf(os.Stderr, "vsymLog: %s %q\n", e.vsymName(a[0]), st.s)
					} else {
						fmt.Fprintf(os.Stderr, "vsymLog: %s %s\n", e.vsymName(a[0]), describe(it.v))
					}
				} else {
					fmt.Fprintf(os.Stderr, "vsymLog: %s %s\n", e.vsymName(a[0]), describe(a[1]))
				}
			}
			return nil
		},
	}
}
