# Registry of harnesses per property.  params: tier -> list of parameter sets (one engine exploration each).
import itertools


def grid(**kw):
    keys = list(kw)
    return [dict(zip(keys, vals)) for vals in itertools.product(*[kw[k] for k in keys])]


CHECKS = {}

CHECKS["C16"] = {
    "explanation": "Bounded symbolic execution of gluon's message-set handling through its real go/ssa: (a) rfcparser.ParseNumber / command.ParseSeqSet on digit strings of up to 22 symbolic digits, (b) internal/state snapMsgList.{getMessagesInSeqRange,getMessagesInUIDRange,resolve*,seqRange,uidRange,binarySearchByUID,...} with every set number an arbitrary value the parser can produce and every UID of the view a strictly ascending symbolic 32-bit value.  Every assertion and run-time panic check is decided by an SMT solver (QF_BV) on every feasible path; counterexamples are replayed natively.",
    "harnesses": [
        {"name": "number", "pkg": "imap/command", "pkgname": "command", "entry": "VerifC16Number", "files": ["zz_verif_c16.go", "zz_verif_reader.go"],
         "params": {"quick": grid(digits=[1, 5, 10, 18, 19, 20]), "thorough": grid(digits=list(range(1, 23)))},
         "cover": ["number-accepted"]},
        {"name": "seqnumber", "pkg": "imap/command", "pkgname": "command", "entry": "VerifC16SeqNumber", "files": ["zz_verif_c16.go", "zz_verif_reader.go"],
         "params": {"quick": grid(digits=[1, 9, 10, 11, 19, 20]), "thorough": grid(digits=list(range(1, 23)))},
         "cover": []},
        {"name": "seq", "pkg": "internal/state", "pkgname": "state", "entry": "VerifC16Seq", "files": ["zz_verif_c16.go"],
         "params": {"quick": grid(n=[0, 1, 2, 3, 4], r=[1]) + grid(n=[2, 3], r=[2]),
                    "thorough": grid(n=[0, 1, 2, 3, 4, 5, 6], r=[1, 2]) + grid(n=[2, 3], r=[3])},
         "cover": []},
        {"name": "uid", "pkg": "internal/state", "pkgname": "state", "entry": "VerifC16UID", "files": ["zz_verif_c16.go"],
         "params": {"quick": grid(n=[0, 1, 2, 3, 4], r=[1]) + grid(n=[2, 3], r=[2]),
                    "thorough": grid(n=[0, 1, 2, 3, 4, 5, 6], r=[1, 2]) + grid(n=[2, 3], r=[3])},
         "cover": []},
    ],
    "stubs": ["uuid.New -> fresh distinct ids", "rfcparser.Reader -> fixed symbolic buffer then io.EOF"],
    "outside": ["views larger than the bound n", "sets with more ranges than r", "digit strings longer than the bound", "the wire-level BAD rendering"],
    "assumptions": ["view UIDs strictly ascending (snapshot invariant, enforced by snapMsgList.insert)", "set numbers within the parser's post-condition (checked by the number/seqnumber harnesses)"],
}
