package state

import (
	"context"

	"github.com/ProtonMail/gluon/db"
	"github.com/ProtonMail/gluon/imap"
	"github.com/ProtonMail/gluon/imap/command"
	"github.com/ProtonMail/gluon/internal/contexts"
	"github.com/ProtonMail/gluon/internal/ids"
	"github.com/ProtonMail/gluon/internal/response"
	"github.com/ProtonMail/gluon/limits"
)

// VerifC01Commands: the observing session issues whole commands through the real Mailbox API (STORE with and
// without .SILENT, FETCH with and without the \Seen side effect, EXPUNGE, NOOP) while another session changes the
// same mailbox; every untagged response the observer receives (from the command itself and from the flushes the
// session layer performs) feeds the client mirror, which is compared with the snapshot after every command and,
// at quiescence, with a freshly selected view.
func VerifC01Commands() {
	n := vsymParam("n")
	k := vsymParam("k")
	w := verifNewWorld(limits.DefaultLimits())
	a := w.db.AddBox("A", "mb-A", 2)
	pool := make([]db.MessageIDPair, n+1)
	for i := 0; i < n; i++ {
		fl := [][]string{{}, {imap.FlagSeen}}[vsymChoice("flags0", 2)]
		pool[i] = w.addMessage(a, imap.UID(i+1), fl...)
		w.store.data[pool[i].InternalID] = []byte(ids.InternalIDKey + ": " + pool[i].InternalID.String() + "\r\n" + verifLiterals[0])
	}
	b := w.db.AddBox("B", "mb-B", 3)
	pool[n] = w.addMessage(b, 1) // can be copied into A by the other session
	w.store.data[pool[n].InternalID] = []byte(ids.InternalIDKey + ": " + pool[n].InternalID.String() + "\r\n" + verifLiterals[1])

	obs := w.newState(1)
	act := w.newState(2)
	for _, st := range []*State{obs, act} {
		if err := st.Select(ctxFor(st), "A", func(m *Mailbox) error { return nil }); err != nil {
			panic(err)
		}
	}
	mboxA := db.MailboxIDPair{InternalID: a.ID, RemoteID: a.Remote}
	obsCtx := contexts.NewDisableParallelismCtx(ctxFor(obs), true)
	actCtx := ctxFor(act)
	plain := context.Background()
	mirror := &verifMirror{}
	for i := 0; i < n; i++ {
		mirror.ents = append(mirror.ents, verifMirEnt{})
	}
	mirror.probe(obs.snap)

	// withMailbox runs one command of the observer the way handleSelectedCommand does: the command, then a flush
	// that does not permit expunges
	var atOK func() // what the client does on the tagged OK, before it looks at the mailbox again
	withMailbox := func(cmd func(m *Mailbox) error) {
		atOK = nil
		err := obs.Selected(obsCtx, func(m *Mailbox) error {
			cerr := cmd(m)
			res, ferr := m.Flush(obsCtx, false)
			vsymAssert(ferr == nil, "flush succeeds")
			for _, r := range res {
				mirror.apply(r)
			}
			return cerr
		})
		_ = err
		if atOK != nil {
			atOK()
		}
		mirror.probe(obs.snap)
	}
	inA := func(i int) bool { return a.Row(pool[i].InternalID) != nil }
	// known finding F21: the session executes its own flag-changing command while another session's flag change is
	// still queued for it; the queued delta is applied to the view after the own change although it was committed
	// before it (stale answer until it is delivered; opposite deltas leave the view diverged for good)
	f21 := false
	foreignFlagChangeQueued := func() bool {
		for _, u := range w.user.pending[0] {
			switch u.(type) {
			case *messageFlagsComboStateUpdate, *messageFlagsAddedStateUpdate, *messageFlagsRemovedStateUpdate, *messageFlagsSetStateUpdate:
				return true
			case *ExistsStateUpdate: // carries the flags the message had when it was (re-)added
				return true
			}
		}
		return false
	}

	for step := 0; step < k; step++ {
		switch vsymChoice("event", 8) {
		case 0: // STORE seq (+|-|)FLAGS[.SILENT] flag
			cnt := len(mirror.ents)
			if cnt == 0 {
				vsymAssume(false)
			}
			seq := 1 + vsymChoice("storeSeq", cnt)
			action := []command.StoreAction{command.StoreActionAddFlags, command.StoreActionRemFlags, command.StoreActionSetFlags}[vsymChoice("storeAction", 3)]
			flMask := []int{vfSeen, vfDeleted}[vsymChoice("storeFlag", 2)]
			silent := vsymChoice("storeSilent", 2) == 1
			if foreignFlagChangeQueued() {
				f21 = true
				mirror.selfTag = "F21"
			}
			withMailbox(func(m *Mailbox) error {
				ctx := obsCtx
				if silent {
					ctx = contexts.AsSilent(ctx)
				}
				err := m.Store(ctx, []command.SeqRange{{Begin: command.SeqNum(seq), End: command.SeqNum(seq)}}, action, verifFlagSet(flMask))
				vsymAssert(err == nil, "STORE on an announced sequence number succeeds")
				if err == nil && silent {
					// at the tagged OK the client computes the result of its .SILENT store itself, on top of whatever it
					// was told while the command ran (the client model most favourable to the server)
					atOK = func() {
						if seq > len(mirror.ents) {
							return
						}
						e := &mirror.ents[seq-1]
						if e.flagsKnown {
							keep := e.flags & vfRecent
							switch action {
							case command.StoreActionAddFlags:
								e.flags |= flMask
							case command.StoreActionRemFlags:
								e.flags &^= flMask
							default:
								e.flags = flMask | keep
							}
							e.selfComputed = true
						}
					}
				}
				return err
			})
			vsymCover("own-store")
		case 1: // FETCH seq (FLAGS BODY[] / BODY.PEEK[])
			cnt := len(mirror.ents)
			if cnt == 0 {
				vsymAssume(false)
			}
			seq := 1 + vsymChoice("fetchSeq", cnt)
			peek := vsymChoice("fetchPeek", 2) == 1
			if !peek && foreignFlagChangeQueued() {
				f21 = true
			}
			withMailbox(func(m *Mailbox) error {
				ch := make(chan response.Response, 8)
				cmd := &command.Fetch{SeqSet: []command.SeqRange{{Begin: command.SeqNum(seq), End: command.SeqNum(seq)}},
					Attributes: []command.FetchAttribute{&command.FetchAttributeFlags{}, &command.FetchAttributeBodySection{Peek: peek}}}
				err := m.Fetch(obsCtx, cmd, ch)
				vsymAssert(err == nil, "FETCH of an announced sequence number succeeds")
				for len(ch) > 0 {
					mirror.apply(<-ch)
				}
				return err
			})
			vsymCover("own-fetch")
		case 2: // EXPUNGE
			withMailbox(func(m *Mailbox) error {
				err := m.Expunge(obsCtx, nil)
				vsymAssert(err == nil, "EXPUNGE succeeds")
				res, ferr := m.Flush(obsCtx, true)
				vsymAssert(ferr == nil, "flush succeeds")
				for _, r := range res {
					mirror.apply(r)
				}
				return err
			})
			vsymCover("own-expunge")
		case 3: // NOOP
			withMailbox(func(m *Mailbox) error {
				res, ferr := m.Flush(obsCtx, true)
				vsymAssert(ferr == nil, "flush succeeds")
				for _, r := range res {
					mirror.apply(r)
				}
				return nil
			})
		case 4: // the other session stores a flag
			i := vsymChoice("actWhich", len(pool))
			if !inA(i) {
				vsymAssume(false)
			}
			fl := imap.NewFlagSet([]string{imap.FlagSeen, imap.FlagFlagged, imap.FlagDeleted}[vsymChoice("actFlag", 3)])
			add := vsymChoice("actAdd", 2) == 1
			err := stateDBWrite(actCtx, act, func(ctx context.Context, tx db.Transaction) ([]Update, error) {
				idl := []imap.InternalMessageID{pool[i].InternalID}
				if add {
					return act.applyMessageFlagsAdded(ctx, tx, idl, fl)
				}
				return act.applyMessageFlagsRemoved(ctx, tx, idl, fl)
			})
			vsymAssert(err == nil, "STORE by the other session succeeds")
		case 5: // the other session removes a message
			i := vsymChoice("actDel", len(pool))
			if !inA(i) {
				vsymAssume(false)
			}
			err := stateDBWrite(actCtx, act, func(ctx context.Context, tx db.Transaction) ([]Update, error) {
				return act.actionRemoveMessagesFromMailbox(ctx, tx, []db.MessageIDPair{pool[i]}, mboxA)
			})
			vsymAssert(err == nil, "EXPUNGE by the other session succeeds")
		case 6: // the other session copies a message into A
			i := vsymChoice("actAdd", len(pool))
			if inA(i) {
				vsymAssume(false)
			}
			err := stateDBWrite(actCtx, act, func(ctx context.Context, tx db.Transaction) ([]Update, error) {
				updates, _, err := act.actionAddMessagesToMailbox(ctx, tx, []db.MessageIDPair{pool[i]}, mboxA, true)
				return updates, err
			})
			vsymAssert(err == nil, "COPY by the other session succeeds")
		case 7: // the next pending update reaches the observer (between two of its commands)
			if len(w.user.pending[0]) == 0 {
				vsymAssume(false)
			}
			u := w.user.pending[0][0]
			w.user.pending[0] = w.user.pending[0][1:]
			vsymAssert(obs.ApplyUpdate(plain, u) == nil, "update applies")
			vsymCover("update-delivered")
		}
	}
	// quiescence
	w.deliverAll(0)
	res, err := obs.flushResponses(obsCtx, true)
	vsymAssert(err == nil, "NOOP succeeds")
	for _, r := range res {
		mirror.apply(r)
	}
	mirror.probe(obs.snap)
	if f21 {
		vsymKnown("F21", true) // the convergence obligations below (a C02 statement) are where F21 shows for good
	}
	fresh := w.newState(3)
	if err := fresh.Select(ctxFor(fresh), "A", func(m *Mailbox) error { return nil }); err != nil {
		panic(err)
	}
	want := fresh.snap.messages.msg
	got := obs.snap.messages.msg
	vsymAssert(len(got) == len(want), "after NOOP the session sees exactly the messages of the mailbox")
	if len(got) == len(want) {
		for i := range want {
			vsymAssert(got[i].ID.InternalID == want[i].ID.InternalID && got[i].UID == want[i].UID, "same messages and UIDs")
			vsymAssert(verifFlagMask(got[i].flags)&^vfRecent == verifFlagMask(want[i].flags)&^vfRecent, "same flags (ignoring \\Recent)")
		}
	}
}
