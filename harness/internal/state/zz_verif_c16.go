package state

import (
	"context"

	"errors"
	"github.com/ProtonMail/gluon/internal/contexts"

	"github.com/ProtonMail/gluon/db"
	"github.com/ProtonMail/gluon/imap"
	"github.com/ProtonMail/gluon/imap/command"
)

// verifView builds a snapMsgList of n messages with strictly ascending symbolic 32-bit UIDs.
func verifView(n int) (*snapMsgList, []uint32) {
	list := newMsgList(n)
	uids := make([]uint32, n)
	prev := uint32(0)
	for i := 0; i < n; i++ {
		u := vsymUint32("uid")
		vsymAssume(u > prev)
		prev = u
		uids[i] = u
		if err := list.insert(db.MessageIDPair{InternalID: imap.NewInternalMessageID()}, imap.UID(u), imap.NewFlagSet()); err != nil {
			panic(err)
		}
	}
	return list, uids
}

func verifSeqSet(r int) []command.SeqRange {
	set := make([]command.SeqRange, r)
	for i := range set {
		// exactly the parser's post-condition (decided by VerifC16SeqNumber): 0 ('*') or a 32-bit nz-number
		b := vsymInt("begin")
		vsymAssume(b >= 0)
		vsymAssume(b <= 4294967295)
		set[i].Begin = command.SeqNum(b)
		if vsymChoice("single", 2) == 0 {
			set[i].End = set[i].Begin
		} else {
			e := vsymInt("end")
			vsymAssume(e >= 0)
			vsymAssume(e <= 4294967295)
			set[i].End = command.SeqNum(e)
		}
	}
	return set
}

// VerifC16Seq: sequence-number sets (RFC 3501): a set selects exactly lo..hi after resolving '*'
// to n and ordering the ends; any number beyond n (or any number in an empty mailbox) is an error.
func VerifC16Seq() {
	n := vsymParam("n")
	r := vsymParam("r")
	list, uids := verifView(n)
	set := verifSeqSet(r)

	// through the snapshot's entry point (what FETCH / STORE / COPY / SEARCH call), sequence-number mode
	res, err := (&snapshot{messages: list}).getMessagesInRange(context.Background(), set)

	// reference
	wantErr := false
	type ent struct{ seq int }
	var want []int
	for _, rg := range set {
		b, e := int(rg.Begin), int(rg.End)
		if b == 0 {
			b = n
		}
		if e == 0 {
			e = n
		}
		if n == 0 {
			wantErr = true
			break
		}
		lo, hi := b, e
		if lo > hi {
			lo, hi = hi, lo
		}
		if hi > n {
			wantErr = true
			break
		}
		for s := lo; s <= hi; s++ {
			want = append(want, s)
		}
	}
	if wantErr {
		vsymCover("seq-error-expected")
		vsymAssert(err != nil, "seq number beyond the view must fail")
		if err != nil {
			vsymAssert(errors.Is(err, ErrNoSuchMessage), "failure must be ErrNoSuchMessage (BAD)")
		}
		return
	}
	vsymCover("seq-ok-expected")
	vsymAssert(err == nil, "valid sequence set must resolve")
	if err != nil {
		return
	}
	vsymAssert(len(res) == len(want), "selected count equals reference")
	if len(res) != len(want) {
		return
	}
	for i, w := range want {
		vsymAssert(int(res[i].Seq) == w, "selected seq equals reference")
		vsymAssert(uint32(res[i].UID) == uids[w-1], "selected message is the one at that seq")
		vsymAssert(res[i].snapMsg == list.msg[w-1], "selected message object")
	}
}

// VerifC16UID: UID sets: never an error on a non-empty view; selects messages with lo <= UID <= hi,
// '*' is the highest UID; nonexistent UIDs are skipped.  Not judged: a range with '*' whose other end
// lies above the highest UID.
func VerifC16UID() {
	n := vsymParam("n")
	r := vsymParam("r")
	list, uids := verifView(n)
	set := verifSeqSet(r)

	res, err := (&snapshot{messages: list}).getMessagesInRange(contexts.AsUID(context.Background()), set)

	if n == 0 {
		vsymCover("uid-empty")
		vsymAssert(err == nil, "UID set on empty mailbox is OK")
		vsymAssert(len(res) == 0, "UID set on empty mailbox selects nothing")
		return
	}
	maxUID := int(uids[n-1])
	var want []int // indices
	for _, rg := range set {
		b, e := int(rg.Begin), int(rg.End)
		star := b == 0 || e == 0
		if b == 0 {
			b = maxUID
		}
		if e == 0 {
			e = maxUID
		}
		if star && b != e {
			// n:* (or *:n) with n above the highest UID is not judged
			other := b
			if int(rg.Begin) == 0 {
				other = e
			}
			if other > maxUID {
				vsymCover("uid-star-above-max-not-judged")
				return
			}
		}
		lo, hi := b, e
		if lo > hi {
			lo, hi = hi, lo
		}
		for i := 0; i < n; i++ {
			u := int(uids[i])
			if lo <= u && u <= hi {
				want = append(want, i)
			}
		}
	}
	vsymCover("uid-judged")
	vsymAssert(err == nil, "UID set never fails on a non-empty view")
	if err != nil {
		return
	}
	vsymAssert(len(res) == len(want), "UID set selects exactly the messages in range")
	if len(res) != len(want) {
		return
	}
	for i, w := range want {
		vsymAssert(res[i].snapMsg == list.msg[w], "UID-selected message object")
		vsymAssert(int(res[i].Seq) == w+1, "UID-selected seq")
	}
}
