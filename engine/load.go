package main

import (
	"encoding/json"
	"fmt"
	"go/types"
	"os"
	"strings"

	"golang.org/x/tools/go/packages"
	"golang.org/x/tools/go/ssa"
	"golang.org/x/tools/go/ssa/ssautil"
)

type Spec struct {
	ID              string            `json:"id"`
	Repo            string            `json:"repo"`
	Pkg             string            `json:"pkg"`
	ExtraPkgs       []string          `json:"extra_pkgs"`
	Overlay         map[string]string `json:"overlay"` // virtual path -> real file
	Entry           string            `json:"entry"`
	Summarise       []string          `json:"summarise"`
	Params          map[string]int    `json:"params"`
	ParamSets       []map[string]int  `json:"param_sets"`
	KnownTags       []string          `json:"known_tags"`
	Cover           []string          `json:"cover"`
	Workers         int               `json:"workers"`
	Solver          string            `json:"solver"`
	MaxDepth        int               `json:"max_depth"`
	MaxSteps        int64             `json:"max_steps"`
	MaxSymLoop      int               `json:"max_sym_loop"`
	SymLoopCut      bool              `json:"sym_loop_cut"` // exceeding max_sym_loop is a declared cut, not an inconclusive end
	MaxAlloc        int               `json:"max_alloc"`
	AllocLimit      int64             `json:"alloc_limit"` // >0: a symbolic allocation size that can exceed this many elements is a violation
	MaxSummaryPaths int               `json:"max_summary_paths"`
	BranchTimeoutMs int               `json:"branch_timeout_ms"`
	OblTimeoutMs    int               `json:"obl_timeout_ms"`
	TimeLimitSec    int               `json:"time_limit_s"`
	PathCap         int               `json:"path_cap"`
	Out             string            `json:"out"`
	Trace           bool              `json:"trace"`
	NoEnum          bool              `json:"no_enum"`
	Goroutines      bool              `json:"goroutines"` // cooperative goroutine model (goroutines.go)
	ConcreteTime    bool              `json:"concrete_time"`
}

func (s *Spec) knownTag(tag string) bool {
	for _, t := range s.KnownTags {
		if t == tag {
			return true
		}
	}
	return false
}

func (s *Spec) defaults() {
	if s.Repo == "" {
		s.Repo = "/repo"
	}
	if s.Workers == 0 {
		s.Workers = 16
	}
	if s.Solver == "" {
		s.Solver = "cvc5"
	}
	if s.MaxDepth == 0 {
		s.MaxDepth = 200
	}
	if s.MaxSteps == 0 {
		s.MaxSteps = 50_000_000
	}
	if s.MaxSymLoop == 0 {
		s.MaxSymLoop = 64
	}
	if s.MaxAlloc == 0 {
		s.MaxAlloc = 64
	}
	if s.MaxSummaryPaths == 0 {
		s.MaxSummaryPaths = 128
	}
	if s.BranchTimeoutMs == 0 {
		s.BranchTimeoutMs = 10000
	}
	if s.OblTimeoutMs == 0 {
		s.OblTimeoutMs = 60000
	}
}

func loadSpec(path string) (*Spec, error) {
	b, err := os.ReadFile(path)
	if err != nil {
		return nil, err
	}
	var s Spec
	if err := json.Unmarshal(b, &s); err != nil {
		return nil, err
	}
	s.defaults()
	return &s, nil
}

func loadProgram(spec *Spec) (*Program, *ssa.Function, error) {
	overlay := map[string][]byte{}
	for virt, real := range spec.Overlay {
		b, err := os.ReadFile(real)
		if err != nil {
			return nil, nil, err
		}
		overlay[virt] = b
	}
	cfg := &packages.Config{
		Mode:    packages.LoadAllSyntax,
		Dir:     spec.Repo,
		Overlay: overlay,
		Env:     append(os.Environ(), "GOFLAGS=-mod=mod", "GOPROXY=off", "GOSUMDB=off", "GOTOOLCHAIN=local"),
	}
	patterns := append([]string{spec.Pkg}, spec.ExtraPkgs...)
	pkgs, err := packages.Load(cfg, patterns...)
	if err != nil {
		return nil, nil, err
	}
	nerr := 0
	packages.Visit(pkgs, nil, func(p *packages.Package) {
		for _, e := range p.Errors {
			if nerr < 20 {
				fmt.Fprintf(os.Stderr, "load error: %s: %v\n", p.PkgPath, e)
			}
			nerr++
		}
	})
	if nerr > 0 {
		return nil, nil, fmt.Errorf("%d package load errors (tree under test does not build?)", nerr)
	}
	prog, _ := ssautil.AllPackages(pkgs, ssa.InstantiateGenerics)
	prog.Build()
	P := &Program{prog: prog, fset: prog.Fset, fninfo: map[*ssa.Function]*fnInfo{}, cfg: spec, summariseR: spec.Summarise}
	rt := prog.ImportedPackage("runtime")
	if rt == nil {
		return nil, nil, fmt.Errorf("runtime package not loaded")
	}
	P.rtErrT = rt.Type("errorString").Object().Type()
	if fp := prog.ImportedPackage("fmt"); fp != nil {
		P.wrapErrT = types.NewPointer(fp.Type("wrapError").Object().Type())
		P.wrapErrsT = types.NewPointer(fp.Type("wrapErrors").Object().Type())
	}
	var main *ssa.Package
	for _, p := range prog.AllPackages() {
		if p.Pkg.Path() == spec.Pkg {
			main = p
		}
	}
	if main == nil {
		return nil, nil, fmt.Errorf("package %s not found", spec.Pkg)
	}
	entry := main.Func(spec.Entry)
	if entry == nil {
		var names []string
		for n := range main.Members {
			if strings.HasPrefix(n, "Verif") {
				names = append(names, n)
			}
		}
		return nil, nil, fmt.Errorf("entry %s not found in %s (have %v)", spec.Entry, spec.Pkg, names)
	}
	return P, entry, nil
}
