package backend

import (
	"bytes"
	"context"
	"errors"
	"io"

	"github.com/ProtonMail/gluon/imap"
	"github.com/ProtonMail/gluon/internal/ids"
	"github.com/ProtonMail/gluon/internal/state"
	"github.com/ProtonMail/gluon/internal/utils"
	"github.com/ProtonMail/gluon/internal/verifdb"
	"github.com/ProtonMail/gluon/limits"
	"github.com/ProtonMail/gluon/store"
	"github.com/sirupsen/logrus"
)

// ---- message store stub with an effect log and symbolic failures ----

type verifStore struct {
	data        map[imap.InternalMessageID][]byte
	log         []string
	faultBudget int
	partial     bool // the last failed Set left a truncated file
}

var errVerifStore = errors.New("verif: injected store failure")

func (s *verifStore) fail(op string) bool {
	if s.faultBudget > 0 && vsymBool("storeFault") {
		s.faultBudget--
		s.log = append(s.log, "FAIL "+op)
		return true
	}
	s.log = append(s.log, op)
	return false
}
func (s *verifStore) Get(id imap.InternalMessageID) ([]byte, error) {
	b, ok := s.data[id]
	if !ok {
		return nil, errors.New("verif: no such file")
	}
	return b, nil
}
func (s *verifStore) Set(id imap.InternalMessageID, r io.Reader) error {
	if s.fail("Set") {
		if vsymBool("storeFaultAfterRead") {
			// the write fails half way: the input is consumed and a truncated file is left behind
			b, _ := io.ReadAll(r)
			s.data[id] = b[:len(b)/2]
			s.partial = true
		}
		return errVerifStore
	}
	b, err := io.ReadAll(r)
	if err != nil {
		return err
	}
	s.data[id] = b
	return nil
}
func (s *verifStore) Delete(idl ...imap.InternalMessageID) error {
	if s.fail("Delete") {
		return errVerifStore
	}
	for _, id := range idl {
		delete(s.data, id)
	}
	return nil
}
func (s *verifStore) Close() error { return nil }
func (s *verifStore) List() ([]imap.InternalMessageID, error) {
	var out []imap.InternalMessageID
	for id := range s.data {
		out = append(out, id)
	}
	return out, nil
}

// verifUser builds a backend user directly (no connector goroutine, no sessions).
func verifUser() (*user, *verifdb.DB, *verifStore) {
	d := verifdb.New()
	st := &verifStore{data: map[imap.InternalMessageID][]byte{}}
	rec := d.AddBox(ids.GluonRecoveryMailboxName, ids.GluonInternalRecoveryMailboxRemoteID, 1)
	u := &user{
		userID:                 "verif",
		store:                  store.NewWriteControlledStore(st),
		delimiter:              "/",
		db:                     d,
		states:                 make(map[state.StateID]*state.State),
		recoveryMailboxID:      rec.ID,
		imapLimits:             limits.DefaultLimits(),
		uidValidityGenerator:   imap.NewIncrementalUIDValidityGenerator(),
		recoveredMessageHashes: utils.NewMessageHashesMap(),
		log:                    logrus.WithField("pkg", "gluon/user"),
	}
	return u, d, st
}

const verifLit1 = "To: a@b.c\r\nFrom: d@e.f\r\nSubject: one\r\n\r\nbody one\r\n"
const verifLit2 = "To: a@b.c\r\nFrom: d@e.f\r\nSubject: two\r\n\r\nbody two\r\n"

func verifMessageCreated(id imap.MessageID, lit string, boxes ...imap.MailboxID) *imap.MessageCreated {
	pm, err := imap.NewParsedMessage([]byte(lit))
	if err != nil {
		panic(err)
	}
	return &imap.MessageCreated{Message: imap.Message{ID: id, Flags: imap.NewFlagSet()}, Literal: []byte(lit), MailboxIDs: boxes, ParsedMessage: pm}
}

type verifSnapshot struct {
	boxes   int
	msgs    int
	rows    []int
	lastUID []imap.UID
	names   []string
	flags   []int
}

func verifSnap(d *verifdb.DB) verifSnapshot {
	s := verifSnapshot{boxes: len(d.Boxes), msgs: len(d.Msgs)}
	for _, b := range d.Boxes {
		s.rows = append(s.rows, len(b.Rows))
		s.lastUID = append(s.lastUID, b.LastUID)
		s.names = append(s.names, b.Name)
	}
	for _, m := range d.Msgs {
		s.flags = append(s.flags, len(m.Flags))
	}
	return s
}

func (a verifSnapshot) equal(b verifSnapshot) bool {
	if a.boxes != b.boxes || a.msgs != b.msgs || len(a.rows) != len(b.rows) || len(a.flags) != len(b.flags) {
		return false
	}
	for i := range a.rows {
		if a.rows[i] != b.rows[i] || a.lastUID[i] != b.lastUID[i] || a.names[i] != b.names[i] {
			return false
		}
	}
	for i := range a.flags {
		if a.flags[i] != b.flags[i] {
			return false
		}
	}
	return true
}

// verifRenameTo: the new name of the MailboxUpdated update (set by the harness: an unrelated name or the current name
// in another letter case)
var verifRenameTo = "renamed"

// verifUpdate builds the update number `kind` against known / unknown / protected objects.
func verifUpdate(kind int, target int) imap.Update {
	mb := []imap.MailboxID{"mb-A", "mb-unknown", ids.GluonInternalRecoveryMailboxRemoteID}[target]
	msg := []imap.MessageID{"rm-1", "rm-unknown", "rm-1"}[target]
	switch kind {
	case 0:
		return imap.NewMailboxCreated(imap.Mailbox{ID: []imap.MailboxID{"mb-new", "mb-A", ids.GluonInternalRecoveryMailboxRemoteID}[target], Name: []string{"new"}, Flags: imap.NewFlagSet(), PermanentFlags: imap.NewFlagSet(), Attributes: imap.NewFlagSet()})
	case 1:
		return imap.NewMailboxDeleted(mb)
	case 2:
		return imap.NewMailboxUpdated(mb, []string{verifRenameTo})
	case 3:
		return imap.NewMailboxIDChanged([]imap.InternalMailboxID{2, 99, 1}[target], "mb-A2")
	case 4:
		return imap.NewMessagesCreated(target == 1, verifMessageCreated("rm-2", verifLit2, mb), verifMessageCreated("rm-2", verifLit2, mb, "mb-B"))
	case 5:
		return imap.NewMessageMailboxesUpdated(msg, []imap.MailboxID{"mb-B"}, imap.NewFlagSet(imap.FlagSeen))
	case 6:
		return imap.NewMessageFlagsUpdated(msg, imap.NewFlagSet(imap.FlagSeen, imap.FlagFlagged))
	case 7:
		return imap.NewMessagesDeleted(msg)
	case 8:
		pm, _ := imap.NewParsedMessage([]byte(verifLit2))
		return imap.NewMessageUpdated(imap.Message{ID: msg, Flags: imap.NewFlagSet(imap.FlagSeen)}, []byte(verifLit2), []imap.MailboxID{"mb-A"}, pm, target == 1)
	case 9:
		return imap.NewUIDValidityBumped()
	case 10:
		return imap.NewNoop()
	}
	panic("kind")
}

// VerifC06Apply: every connector update is acknowledged exactly once (with the error iff one is returned), the
// applier survives it (no panic), a failing database/store step leaves no partial effect, and applying the same
// update a second time writes nothing and assigns no new UID.
func VerifC06Apply() {
	u, d, st := verifUser()
	a := d.AddBox("A", "mb-A", 2)
	d.AddBox("B", "mb-B", 3)
	id1 := imap.NewInternalMessageID()
	d.AddMsg(id1, "rm-1", imap.FlagFlagged)
	a.AddRow(id1, "rm-1", 1, false, false)
	st.data[id1] = []byte("X-Pm-Gluon-Id: " + id1.String() + "\r\n" + verifLit1)
	ctx := context.Background()

	kind := vsymChoice("kind", 11)
	target := vsymChoice("target", 3) // known / unknown / protected object
	verifRenameTo = "renamed"
	if kind == 2 && vsymChoice("renameCaseOnly", 2) == 1 {
		verifRenameTo = "a" // mailbox A renamed to the same name in lower case: a rename like any other
	}
	d.FaultBudget = vsymParam("faults")
	st.faultBudget = vsymParam("faults")

	before := verifSnap(d)
	up := verifUpdate(kind, target)
	err := u.apply(ctx, up)
	// acknowledged exactly once: the waiter channel is closed (a second Done would panic) and carries the error iff non-nil
	werr, ok := up.Wait()
	if err != nil {
		vsymCover("apply-error")
		vsymAssert(ok && werr == err, "the waiter receives the error")
		_, ok2 := up.Wait()
		vsymAssert(!ok2, "the waiter is closed after the error")
		if d.Faults > 0 || true {
			vsymAssert(verifSnap(d).equal(before) || kind == 3 && false, "a failed update leaves the index unchanged")
		}
	} else {
		vsymCover("apply-ok")
		vsymAssert(!ok && werr == nil, "the waiter is closed without an error")
		if kind == 2 && target == 0 {
			vsymAssert(a.Name == verifRenameTo, "a MailboxUpdated for a known mailbox renames it to exactly the announced name")
		}
	}
	// whatever the update says, the recovery mailbox keeps its identity and is never filled by the connector
	if rec := d.BoxByID(u.recoveryMailboxID); rec != nil {
		vsymAssert(rec.Name == ids.GluonRecoveryMailboxName && rec.Remote == ids.GluonInternalRecoveryMailboxRemoteID, "the recovery mailbox keeps its name and remote id whatever the connector sends")
		vsymAssert(len(rec.Rows) == 0, "the connector cannot put messages into the recovery mailbox")
	} else {
		vsymAssert(false, "the recovery mailbox cannot be deleted by the connector")
	}
	// every message row reachable from a mailbox has its bytes in the store (or can be re-downloaded: has a remote id)
	for _, b := range d.Boxes {
		for _, r := range b.Rows {
			_, gerr := st.Get(r.Msg)
			vsymAssert(gerr == nil || !ids.IsRecoveredRemoteMessageID(r.Remote), "every listed message has its bytes or a remote id to download them from")
		}
	}
	if err != nil {
		return
	}
	// idempotence: the same update again (a duplicate delivery) changes nothing
	d.FaultBudget, st.faultBudget = 0, 0
	mid := verifSnap(d)
	writes := d.Commits
	up2 := verifUpdate(kind, target)
	err2 := u.apply(ctx, up2)
	_ = writes
	if kind == 9 {
		return // a second UIDVALIDITY bump is a new event, not a duplicate
	}
	if err2 == nil {
		vsymCover("replay-ok")
		vsymAssert(verifSnap(d).equal(mid), "re-delivering an update that restates the current state changes nothing (no new UID, no row, no flag)")
	}
}

// ---- C07: effect ordering with crash points ----

type verifEffect struct {
	what  string
	store map[imap.InternalMessageID][]byte // store content after this effect
	db    *verifdb.DB                       // committed index content after this effect
}

type verifWorldLog struct {
	effects []verifEffect
	store   *verifStore
	db      *verifdb.DB
}

func (w *verifWorldLog) snapStore() map[imap.InternalMessageID][]byte {
	m := make(map[imap.InternalMessageID][]byte, len(w.store.data))
	for k, v := range w.store.data {
		m[k] = v
	}
	return m
}

// verifLoggedStore wraps the store stub: every successful mutation is a durable effect.
type verifLoggedStore struct {
	*verifStore
	w *verifWorldLog
}

func (s *verifLoggedStore) Set(id imap.InternalMessageID, r io.Reader) error {
	if err := s.verifStore.Set(id, r); err != nil {
		if s.verifStore.partial {
			s.verifStore.partial = false
			s.w.effects = append(s.w.effects, verifEffect{"store.Set (partial)", s.w.snapStore(), nil})
		}
		return err
	}
	s.w.effects = append(s.w.effects, verifEffect{"store.Set", s.w.snapStore(), nil})
	return nil
}
func (s *verifLoggedStore) Delete(idl ...imap.InternalMessageID) error {
	if err := s.verifStore.Delete(idl...); err != nil {
		return err
	}
	s.w.effects = append(s.w.effects, verifEffect{"store.Delete", s.w.snapStore(), nil})
	return nil
}

func verifUserLogged() (*user, *verifWorldLog) {
	u, d, st := verifUser()
	w := &verifWorldLog{store: st, db: d}
	u.store = store.NewWriteControlledStore(&verifLoggedStore{st, w})
	d.OnCommit = func(d *verifdb.DB) {
		c := d.Clone()
		c.OnCommit = nil
		w.effects = append(w.effects, verifEffect{"commit", nil, c})
	}
	return u, w
}

// verifRecover runs the start-up procedure on the state a crash after `prefix` effects leaves behind and checks
// that every listed message can still be served.
func verifRecover(w *verifWorldLog, initStore map[imap.InternalMessageID][]byte, initDB *verifdb.DB, prefix int) *verifdb.DB {
	storeC := initStore
	dbC := initDB
	for i := 0; i < prefix; i++ {
		if w.effects[i].store != nil {
			storeC = w.effects[i].store
		}
		if w.effects[i].db != nil {
			dbC = w.effects[i].db
		}
	}
	d := dbC.Clone()
	d.FaultBudget, d.OnCommit = 0, nil
	st := &verifStore{data: map[imap.InternalMessageID][]byte{}}
	for k, v := range storeC {
		st.data[k] = v
	}
	u2 := &user{
		userID: "verif", store: store.NewWriteControlledStore(st), delimiter: "/", db: d,
		states: make(map[state.StateID]*state.State), recoveryMailboxID: 1, imapLimits: limits.DefaultLimits(),
		uidValidityGenerator: imap.NewIncrementalUIDValidityGenerator(), recoveredMessageHashes: utils.NewMessageHashesMap(),
		log: logrus.WithField("pkg", "gluon/user"),
	}
	ctx := context.Background()
	vsymAssert(u2.deleteAllMessagesMarkedDeleted(ctx) == nil, "start-up purge of messages marked deleted succeeds")
	vsymAssert(u2.cleanupStaleStoreData(ctx) == nil, "start-up cleanup of stale cache files succeeds")
	// every listed message can be fetched: its bytes are cached, or it has a remote id to download them from
	for _, b := range d.Boxes {
		for _, r := range b.Rows {
			got, gerr := st.Get(r.Msg)
			vsymAssert(gerr == nil || !ids.IsRecoveredRemoteMessageID(r.Remote), "after a crash every listed message still has its bytes (or can be re-downloaded)")
			if gerr == nil {
				vsymAssert(bytes.HasSuffix(got, []byte(verifLit1)) || bytes.HasSuffix(got, []byte(verifLit2)), "the cached bytes of a listed message are a complete literal (not empty or truncated)")
			}
			vsymAssert(d.Msg(r.Msg) != nil, "after a crash every mailbox row refers to an existing message")
			if _, had := initStore[r.Msg]; had {
				// (reading of "state before or after the operation": the cache is the server's own copy of the
				// bytes - an operation that failed or was interrupted must not have thrown it away)
				vsymAssert(gerr == nil, "a listed message whose bytes were cached before the operation still has a cache file")
			}
		}
	}
	// left-overs are gone: no cache file without a message row, no message still marked deleted
	for id := range st.data {
		vsymAssert(d.Msg(id) != nil, "start-up removes cache files without a message row")
	}
	for _, m := range d.Msgs {
		vsymAssert(!m.MarkedDeleted, "start-up purges messages marked deleted")
	}
	return d
}

// VerifC07Crash: connector-driven message creation / update / deletion with failing steps and a crash after any
// prefix of the externally visible effects (store writes/deletes, commits).
func VerifC07Crash() {
	u, w := verifUserLogged()
	d, st := w.db, w.store
	a := d.AddBox("A", "mb-A", 2)
	d.AddBox("B", "mb-B", 3)
	id1 := imap.NewInternalMessageID()
	d.AddMsg(id1, "rm-1", imap.FlagFlagged)
	a.AddRow(id1, "rm-1", 1, false, false)
	st.data[id1] = []byte("X-Pm-Gluon-Id: " + id1.String() + "\r\n" + verifLit1)
	initStore := w.snapStore()
	initDB := d.Clone()
	initDB.OnCommit = nil
	ctx := context.Background()
	d.CommitFaults = true
	d.FaultBudget = vsymParam("faults")
	st.faultBudget = vsymParam("faults")
	var up imap.Update
	switch vsymChoice("op", 4) {
	case 0:
		if vsymBool("batchMentionsKnown") {
			// the batch restates a message the index already holds next to a new one
			up = imap.NewMessagesCreated(false, verifMessageCreated("rm-1", verifLit1, "mb-A"), verifMessageCreated("rm-2", verifLit2, "mb-A", "mb-B"))
		} else {
			up = imap.NewMessagesCreated(false, verifMessageCreated("rm-2", verifLit2, "mb-A"), verifMessageCreated("rm-3", verifLit1, "mb-A", "mb-B"))
		}
	case 1:
		pm, _ := imap.NewParsedMessage([]byte(verifLit2))
		up = imap.NewMessageUpdated(imap.Message{ID: "rm-1", Flags: imap.NewFlagSet()}, []byte(verifLit2), []imap.MailboxID{"mb-A"}, pm, false)
	case 2:
		up = imap.NewMessagesDeleted("rm-1")
	case 3:
		pm, _ := imap.NewParsedMessage([]byte(verifLit2))
		up = imap.NewMessageUpdated(imap.Message{ID: "rm-9", Flags: imap.NewFlagSet()}, []byte(verifLit2), []imap.MailboxID{"mb-A"}, pm, true)
	}
	err := u.apply(ctx, up)
	if err != nil {
		vsymCover("op-failed")
	} else {
		vsymCover("op-ok")
	}
	d.FaultBudget, st.faultBudget = 0, 0
	// a crash after any number of effects (0 = before the operation, len = after it completed)
	p := vsymChoice("crashAfter", len(w.effects)+1)
	vsymCover("crash-point")
	verifRecover(w, initStore, initDB, p)
}

// ---- C18: login jail ----

type verifAuthConn struct {
	verifConnBase
	ok bool
}

func (c *verifAuthConn) Authorize(ctx context.Context, username string, password []byte) bool {
	return c.ok
}

// VerifC18Jail: a sequence of LOGIN attempts (any user names, right or wrong credentials) against Backend.getUserID:
// wrong credentials never yield a user id, and after three consecutive failures the attempt reports the jail and the
// next attempt is not answered before the jail timer has run (under the engine the call blocks: the path ends
// BLOCKED; reaching the statement after it means the attempt was answered).
func VerifC18Jail() {
	k := vsymParam("k")
	u, _, _ := verifUser()
	conn := &verifAuthConn{}
	u.connector = conn
	b, err := New("", "", nil, "/", 3600*1000000000, limits.DefaultLimits(), nil, nil)
	if err != nil {
		panic(err)
	}
	b.log = logrus.WithField("pkg", "gluon/backend")
	b.users["verif"] = u
	ctx := context.Background()
	failures := 0
	for i := 0; i < k; i++ {
		conn.ok = vsymChoice("credentialsOK", 2) == 1
		name := []string{"user", "user1", "nobody"}[vsymChoice("name", 3)]
		id, err := b.getUserID(ctx, name, []byte("pass"))
		if conn.ok {
			vsymCover("login-ok")
			vsymAssert(err == nil && id == "verif", "right credentials authenticate")
			failures = 0
			continue
		}
		vsymAssert(err != nil && id == "", "wrong credentials never authenticate")
		failures++
		if failures == maxLoginAttempts {
			vsymCover("jail-entered")
			vsymAssert(errors.Is(err, ErrLoginBlocked), "the third consecutive failure reports the jail")
			conn.ok = true
			_, _ = b.getUserID(ctx, "user", []byte("pass"))
			vsymAssert(false, "an attempt after three consecutive failures is answered before the jail time has passed")
			return
		}
		vsymCover("failure-counted")
		vsymAssert(errors.Is(err, ErrNoSuchUser), "an ordinary failure reports no such user")
	}
	// fewer than three consecutive failures: the next attempt is answered at once
	conn.ok = true
	id, err := b.getUserID(ctx, "user", []byte("pass"))
	vsymAssert(err == nil && id == "verif", "no jail without three consecutive failures")
}
