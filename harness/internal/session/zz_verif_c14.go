package session

import (
	"strings"

	"github.com/ProtonMail/gluon/internal/backend"
	"github.com/sirupsen/logrus"
)

// VerifC14Decode: the session's mailbox-name normalisation for every configured delimiter (including NIL):
// only a leading "inbox" path element (any letter case) is rewritten to INBOX, every other name is kept byte for
// byte - names other than INBOX are case-sensitive.
func VerifC14Decode() {
	delim := []string{"/", ".", ""}[vsymChoice("delim", 3)]
	s := &Session{backend: backend.VerifNewBackend(delim), log: logrus.WithField("pkg", "gluon/session")}
	head := []string{"inbox", "inbo", "xinbox", "a"}[vsymChoice("head", 4)]
	tail := []string{"", "/x", ".x", "es", "-Archive", "/", ".", "/inbox", "//x"}[vsymChoice("tail", 9)]
	b := []byte(head + tail)
	for i := 0; i < len(head); i++ { // symbolic letter case of the head
		if vsymBool("upper") {
			b[i] = b[i] &^ 0x20
		}
	}
	name := string(b)
	got, err := s.decodeMailboxName(name)
	vsymAssert(err == nil, "an ASCII name without '&' decodes")
	if err != nil {
		return
	}
	want := name
	if delim != "" && head == "inbox" && strings.HasPrefix(tail, delim) {
		want = "INBOX" + tail
	}
	vsymAssert(got == want, "only a leading inbox element is normalised; every other name is kept byte for byte")
	vsymCover("decoded")
}
