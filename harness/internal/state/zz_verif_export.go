package state

// VerifNewBareState returns a State without a selected mailbox whose user interface is a stub that panics with
// "stub missing" on any database / connector access (used by the session dispatch harness).
func VerifNewBareState() *State {
	user := &verifUser{db: &verifMiniDB{}, delimiter: "/"}
	st := verifNewState(user, 1)
	user.addState(st)
	return st
}
