package state

import "github.com/ProtonMail/gluon/imap"

// VerifNewBareState returns a State without a selected mailbox whose user interface is a stub that panics with
// "stub missing" on any database / connector access (used by the session dispatch harness).
func VerifNewBareState() *State {
	user := &verifUser{db: &verifMiniDB{}, delimiter: "/"}
	st := verifNewState(user, 1)
	user.addState(st)
	return st
}

// VerifViewEntry is one line of what the session would answer to FETCH 1:* (UID FLAGS).
type VerifViewEntry struct {
	UID   imap.UID
	ID    imap.InternalMessageID
	Flags int // verifFlagMask without \Recent
}

// VerifView returns the selected mailbox's snapshot as the session would report it.
func (m *Mailbox) VerifView() []VerifViewEntry {
	var out []VerifViewEntry
	for _, msg := range m.snap.messages.msg {
		out = append(out, VerifViewEntry{UID: msg.UID, ID: msg.ID.InternalID, Flags: verifFlagMask(msg.flags) &^ vfRecent})
	}
	return out
}
