package state

import (
	"time"

	"github.com/ProtonMail/gluon/imap"
	"github.com/ProtonMail/gluon/imap/command"
	"github.com/ProtonMail/gluon/internal/verifdb"
	"github.com/ProtonMail/gluon/limits"
)

const verifLiteral = "To: a@b.c\r\nFrom: d@e.f\r\nSubject: s\r\n\r\nbody\r\n"

type verifBoxDigest struct {
	rows    int
	lastUID imap.UID
}

func verifDigest(d *verifdb.DB) (boxes int, msgs int, per []verifBoxDigest) {
	for _, b := range d.Boxes {
		per = append(per, verifBoxDigest{len(b.Rows), b.LastUID})
	}
	return len(d.Boxes), len(d.Msgs), per
}

// VerifC17Ops: check-before-insert.  Two mailboxes (A selected, with nA messages; B with nB messages and a
// symbolic UIDNEXT), symbolic limit configuration, one operation.  Accepted => all limits hold afterwards;
// refused with a limit error => the model is unchanged (all-or-nothing).
func VerifC17Ops() {
	nA := vsymParam("nA")
	nB := vsymParam("nB")
	maxMbox := vsymUint32("maxMailboxes")
	maxMsg := vsymUint32("maxMessages")
	maxUID := vsymUint32("maxUID")
	lim := limits.NewIMAPLimits(maxMbox, maxMsg, imap.UID(maxUID), imap.UID(4294967295))
	w := verifNewWorld(lim)
	a := w.db.AddBox("A", "mb-A", 2)
	b := w.db.AddBox("B", "mb-B", 3)
	// either mailbox may be the Drafts mailbox (APPEND takes a different path there)
	switch vsymChoice("drafts", 3) {
	case 1:
		a.Attrs = []string{imap.AttrDrafts}
	case 2:
		b.Attrs = []string{imap.AttrDrafts}
	}
	for i := 0; i < nA; i++ {
		w.addMessage(a, imap.UID(i+1))
	}
	for i := 0; i < nB; i++ {
		w.addMessage(b, imap.UID(i+1))
	}
	// B's UID sequence may already be far ahead of its content (expunged messages)
	lastB := vsymUint32("lastUID_B")
	vsymAssume(lastB >= uint32(nB))
	b.LastUID = imap.UID(lastB)
	// the starting state respects the limits
	vsymAssume(uint32(len(w.db.Boxes)) <= maxMbox)
	vsymAssume(uint32(nA) <= maxMsg)
	vsymAssume(uint32(nB) <= maxMsg)
	vsymAssume(uint32(nA) <= maxUID)
	vsymAssume(lastB <= maxUID)

	st := w.newState(1)
	ctx := ctxFor(st)
	var mboxA *Mailbox
	if err := st.Select(ctx, "A", func(m *Mailbox) error { mboxA = m; return nil }); err != nil {
		panic(err)
	}
	boxes0, msgs0, per0 := verifDigest(w.db)

	all := []command.SeqRange{{Begin: 1, End: 0}}
	var err error
	op := vsymChoice("op", 6)
	switch op {
	case 0:
		if nA == 0 {
			vsymAssume(false)
		}
		_, err = mboxA.Copy(ctx, all, "B")
	case 1:
		if nA == 0 {
			vsymAssume(false)
		}
		_, err = mboxA.Move(ctx, all, "B")
	case 2:
		_, err = mboxA.Append(ctx, []byte(verifLiteral), imap.NewFlagSet(), time0())
	case 3:
		err = st.AppendOnlyMailbox(ctx, "B", func(m AppendOnlyMailbox, sel bool) error {
			_, e := m.Append(ctx, []byte(verifLiteral), imap.NewFlagSet(), time0())
			return e
		})
	case 4:
		name := []string{"x", "x/y", "x/y/z", "A/q/r"}[vsymChoice("createName", 4)]
		err = st.Create(ctx, name)
	case 5: // RENAME below parents that do not exist yet (they are created), also of INBOX (a new mailbox is created)
		from := []string{"B", "INBOX"}[vsymChoice("renameFrom", 2)]
		if from == "INBOX" {
			w.db.AddBox("INBOX", "mb-inbox", 9)
			vsymAssume(uint32(len(w.db.Boxes)) <= maxMbox)
			boxes0, msgs0, per0 = verifDigest(w.db)
		}
		err = st.Rename(ctx, from, []string{"y", "p/y", "p/q/y"}[vsymChoice("renameTo", 3)])
	}
	boxes1, msgs1, per1 := verifDigest(w.db)
	if err == nil {
		vsymCover("accepted")
		vsymAssert(uint32(boxes1) <= maxMbox, "number of mailboxes within the configured maximum after an accepted operation")
		for _, bx := range w.db.Boxes {
			if bx.ID == w.user.recovery.InternalID {
				continue
			}
			vsymAssert(uint32(len(bx.Rows)) <= maxMsg, "message count within the configured maximum after an accepted operation")
			vsymAssert(uint32(bx.LastUID) <= maxUID, "highest assigned UID within the configured maximum after an accepted operation")
		}
		return
	}
	if limits.IsIMAPLimitErr(err) {
		vsymCover("refused-by-limit")
		_, _ = msgs0, msgs1 // a refused APPEND is parked in the recovery mailbox (C20), so the message table may grow
		same := boxes0 == boxes1 && len(per0) == len(per1)
		vsymAssert(same, "a refused operation leaves the number of mailboxes unchanged")
		if same {
			for i := range per0 {
				// the recovery mailbox legitimately receives a failed APPEND (C20); every other mailbox is untouched
				if w.db.Boxes[i].ID == w.user.recovery.InternalID {
					continue
				}
				vsymAssert(per0[i].rows == per1[i].rows, "a refused operation adds/removes no message")
				vsymAssert(per0[i].lastUID == per1[i].lastUID, "a refused operation consumes no UID")
			}
		}
		return
	}
	vsymCover("other-error")
}

func time0() time.Time { return time.Unix(1700000000, 0) }
