package command

import (
	"io"

	"github.com/ProtonMail/gluon/rfcparser"
)

// verifReader implements rfcparser.Reader over a fixed buffer and then reports io.EOF for ever.
// It counts how often end-of-stream was observed (ghost state for termination obligations).
type verifReader struct {
	buf      []byte
	pos      int
	eofReads int
	eofLimit int // 0 = unchecked; otherwise reading past the end more often than this is a violation (non-termination)
	// shortReads: Read may return any 1 <= k <= min(len(dst), rest) bytes (how the stream is chunked by the network)
	shortReads bool
}

func (r *verifReader) atEOF() {
	r.eofReads++
	if r.eofLimit > 0 {
		vsymAssert(r.eofReads <= r.eofLimit, "parser keeps reading after end of stream (does not terminate)")
	}
}

func (r *verifReader) ReadByte() (byte, error) {
	if r.pos >= len(r.buf) {
		r.atEOF()
		return 0, io.EOF
	}
	b := r.buf[r.pos]
	r.pos++
	return b, nil
}

func (r *verifReader) Read(dst []byte) (int, error) {
	if r.pos >= len(r.buf) {
		r.atEOF()
		return 0, io.EOF
	}
	avail := len(r.buf) - r.pos
	if avail > len(dst) {
		avail = len(dst)
	}
	if r.shortReads && avail > 1 {
		avail = 1 + vsymChoice("shortRead", avail)
	}
	n := copy(dst[:avail], r.buf[r.pos:])
	r.pos += n
	return n, nil
}

func (r *verifReader) ReadBytes(delim byte) ([]byte, error) {
	start := r.pos
	for r.pos < len(r.buf) {
		b := r.buf[r.pos]
		r.pos++
		if b == delim {
			return r.buf[start:r.pos], nil
		}
	}
	r.atEOF()
	return r.buf[start:r.pos], io.EOF
}

func verifParser(buf []byte) (*rfcparser.Parser, *verifReader) {
	r := &verifReader{buf: buf}
	p := rfcparser.NewParser(rfcparser.NewScannerWithReader(r))
	return p, r
}
