#!/usr/bin/env python3
"""usage: tools/finish_seed.py <seed-id> <property> <caught_by text> <command that was run> [...more commands]
Writes seeded/<id>/meta.json from the sub-agent's notes.json and the confirmation line in seeded/CONFIRM.log."""
import json, os, sys
sid, prop, caught = sys.argv[1:4]
ran = sys.argv[4:]
d = os.path.join('/verif/seeded', sid)
n = json.load(open(os.path.join(d, 'notes.json')))
conf = [l.strip() for l in open('/verif/seeded/CONFIRM.log') if ('seed=%s ' % sid) in l]
if not conf:
    sys.exit("no confirmation line for " + sid)
meta = {"property": prop, "what": n.get('what'), "needs_to_manifest": n.get('needs'), "caught_by": caught,
        "confirmed": "tools/confirm_seed.sh (scratch worktree): " + conf[-1], "ran": ran, "demo_pkg": n.get('pkg'),
        "source": "independent sub-agent given only the property text and its own scratch worktree (wave 7, base commit 38c280c)"}
json.dump(meta, open(os.path.join(d, 'meta.json'), 'w'), indent=1)
os.remove(os.path.join(d, 'notes.json'))
print("meta written for", sid)
