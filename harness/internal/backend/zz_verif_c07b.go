package backend

import (
	"context"
	"fmt"
	"time"

	"github.com/ProtonMail/gluon/connector"
	"github.com/ProtonMail/gluon/imap"
	"github.com/ProtonMail/gluon/imap/command"
	"github.com/ProtonMail/gluon/internal/state"
	"github.com/ProtonMail/gluon/internal/verifdb"
)

// verifFaultConn: the remote side of client commands; every mutating call may fail under a symbolic fault bit.
type verifFaultConn struct {
	verifConnBase
	faultBudget int
	n           int
}

var errVerifRemoteB = fmt.Errorf("verif: injected connector failure")

func (c *verifFaultConn) fail() bool {
	if c.faultBudget > 0 && vsymBool("connFault") {
		c.faultBudget--
		return true
	}
	return false
}
func (c *verifFaultConn) GetMailboxVisibility(ctx context.Context, id imap.MailboxID) imap.MailboxVisibility {
	return imap.Visible
}
func (c *verifFaultConn) CreateMailbox(ctx context.Context, cache connector.IMAPStateWrite, name []string) (imap.Mailbox, error) {
	if c.fail() {
		return imap.Mailbox{}, errVerifRemoteB
	}
	c.n++
	return imap.Mailbox{ID: imap.MailboxID(fmt.Sprintf("mb-new-%d", c.n)), Name: name, Flags: imap.NewFlagSet(imap.FlagSeen, imap.FlagDeleted),
		PermanentFlags: imap.NewFlagSet(imap.FlagSeen, imap.FlagDeleted), Attributes: imap.NewFlagSet()}, nil
}
func (c *verifFaultConn) UpdateMailboxName(ctx context.Context, cache connector.IMAPStateWrite, mboxID imap.MailboxID, newName []string) error {
	if c.fail() {
		return errVerifRemoteB
	}
	return nil
}
func (c *verifFaultConn) DeleteMailbox(ctx context.Context, cache connector.IMAPStateWrite, mboxID imap.MailboxID) error {
	if c.fail() {
		return errVerifRemoteB
	}
	return nil
}
func (c *verifFaultConn) CreateMessage(ctx context.Context, cache connector.IMAPStateWrite, mboxID imap.MailboxID, literal []byte, flags imap.FlagSet, date time.Time) (imap.Message, []byte, error) {
	if c.fail() {
		return imap.Message{}, nil, errVerifRemoteB
	}
	c.n++
	return imap.Message{ID: imap.MessageID(fmt.Sprintf("rm-new-%d", c.n)), Flags: flags, Date: date}, literal, nil
}
func (c *verifFaultConn) AddMessagesToMailbox(ctx context.Context, cache connector.IMAPStateWrite, messageIDs []imap.MessageID, mboxID imap.MailboxID) error {
	if c.fail() {
		return errVerifRemoteB
	}
	return nil
}
func (c *verifFaultConn) RemoveMessagesFromMailbox(ctx context.Context, cache connector.IMAPStateWrite, messageIDs []imap.MessageID, mboxID imap.MailboxID) error {
	if c.fail() {
		return errVerifRemoteB
	}
	return nil
}
func (c *verifFaultConn) MoveMessages(ctx context.Context, cache connector.IMAPStateWrite, messageIDs []imap.MessageID, mboxFromID, mboxToID imap.MailboxID) (bool, error) {
	if c.fail() {
		return false, errVerifRemoteB
	}
	return vsymBool("moveRemovesOld"), nil
}
func (c *verifFaultConn) MarkMessagesSeen(ctx context.Context, cache connector.IMAPStateWrite, messageIDs []imap.MessageID, seen bool) error {
	return nil
}
func (c *verifFaultConn) MarkMessagesFlagged(ctx context.Context, cache connector.IMAPStateWrite, messageIDs []imap.MessageID, flagged bool) error {
	return nil
}
func (c *verifFaultConn) MarkMessagesForwarded(ctx context.Context, cache connector.IMAPStateWrite, messageIDs []imap.MessageID, forwarded bool) error {
	return nil
}

type c7Box struct {
	exists bool
	name   string
	rows   []verifdb.BoxRow
}

func c7BoxOf(d *verifdb.DB, id imap.InternalMailboxID) c7Box {
	b := d.BoxByID(id)
	if b == nil {
		return c7Box{}
	}
	return c7Box{true, b.Name, b.Rows}
}

func (x c7Box) same(y c7Box) bool {
	if x.exists != y.exists || x.name != y.name || len(x.rows) != len(y.rows) {
		return false
	}
	for i := range x.rows {
		if x.rows[i].UID != y.rows[i].UID || x.rows[i].Msg != y.rows[i].Msg || x.rows[i].Deleted != y.rows[i].Deleted {
			return false
		}
	}
	return true
}

// VerifC07Commands: one client command (APPEND selected / not selected, COPY, MOVE, EXPUNGE, CREATE with a superior,
// DELETE, RENAME) through the real state layer on a real backend user, with failing database / store / connector
// steps, and a crash after any prefix of the externally visible effects (store writes and deletes, commits).  The
// start-up procedure must then leave every listed message fetchable, no left-overs, and every mailbox either as it
// was before the command or as the completed command leaves it.
func VerifC07Commands() {
	u, w := verifUserLogged()
	d, st := w.db, w.store
	conn := &verifFaultConn{}
	u.connector = conn
	a := d.AddBox("A", "mb-A", 2)
	b := d.AddBox("B", "mb-B", 3)
	id1, id2 := imap.NewInternalMessageID(), imap.NewInternalMessageID()
	d.AddMsg(id1, "rm-1", imap.FlagFlagged)
	d.AddMsg(id2, "rm-2")
	a.AddRow(id1, "rm-1", 1, false, false)
	a.AddRow(id2, "rm-2", 2, false, false)
	b.AddRow(id2, "rm-2", 1, false, false)
	st.data[id1] = []byte("X-Pm-Gluon-Id: " + id1.String() + "\r\n" + verifLit1)
	st.data[id2] = []byte("X-Pm-Gluon-Id: " + id2.String() + "\r\n" + verifLit2)
	op := vsymChoice("op", 8)
	if op == 4 {
		// EXPUNGE: which messages of A carry \Deleted (id1 lives only in A, id2 also in B)
		a.Rows[0].Deleted = vsymBool("deleted1")
		a.Rows[1].Deleted = vsymBool("deleted2")
	}
	ctx := context.Background()
	s, err := u.newState()
	if err != nil {
		panic(err)
	}
	sctx := state.NewStateContext(ctx, s)
	var mboxA *state.Mailbox
	if err := s.Select(sctx, "A", func(m *state.Mailbox) error { mboxA = m; return nil }); err != nil {
		panic(err)
	}
	w.effects = nil
	initStore := w.snapStore()
	initDB := d.Clone()
	initDB.OnCommit = nil
	d.CommitFaults = true
	d.FaultBudget = vsymParam("faults")
	st.faultBudget = vsymParam("faults")
	conn.faultBudget = vsymParam("faults")
	first := []command.SeqRange{{Begin: 1, End: 1}}
	switch op {
	case 0:
		_, err = mboxA.Append(sctx, []byte(verifLit2), imap.NewFlagSet(), time.Unix(1700000000, 0))
	case 1:
		err = s.AppendOnlyMailbox(sctx, "B", func(m state.AppendOnlyMailbox, sel bool) error {
			_, e := m.Append(sctx, []byte(verifLit1), imap.NewFlagSet(), time.Unix(1700000000, 0))
			return e
		})
	case 2:
		_, err = mboxA.Copy(sctx, first, "B")
	case 3:
		_, err = mboxA.Move(sctx, []command.SeqRange{{Begin: 1, End: 0}}, "B")
	case 4:
		err = mboxA.Expunge(sctx, nil)
	case 5:
		err = s.Create(sctx, "C/D")
	case 6:
		_, err = s.Delete(sctx, "B")
	case 7:
		err = s.Rename(sctx, "B", "E")
	}
	if err != nil {
		vsymCover("command-failed")
	} else {
		vsymCover("command-ok")
	}
	d.FaultBudget, st.faultBudget, conn.faultBudget = 0, 0, 0
	finalDB := initDB
	for _, e := range w.effects {
		if e.db != nil {
			finalDB = e.db
		}
	}
	p := vsymChoice("crashAfter", len(w.effects)+1)
	vsymCover("crash-point")
	after := verifRecover(w, initStore, initDB, p)
	seen := map[imap.InternalMailboxID]bool{}
	for _, src := range []*verifdb.DB{initDB, finalDB, after} {
		for _, bx := range src.Boxes {
			if seen[bx.ID] {
				continue
			}
			seen[bx.ID] = true
			got := c7BoxOf(after, bx.ID)
			vsymAssert(got.same(c7BoxOf(initDB, bx.ID)) || got.same(c7BoxOf(finalDB, bx.ID)), "after a crash every mailbox is as before the command or as the completed command leaves it")
		}
	}
}
