#!/bin/bash
# usage: tools/try_seed_wt.sh <seed-dir> <property> [extra check args]
# Runs the check against a scratch worktree of /repo with the seed applied (VERIF_REPO), so /repo itself is never
# touched and several seeds can be tried in parallel; evidence and replays of the run go to a scratch directory.
set -u
seed=$(realpath "$1"); prop=$2; shift 2
id=$(basename $seed)
wt=/tmp/ts_wt_$id; out=/tmp/ts_out_$id
rm -rf $out; mkdir -p $out
git -C /repo worktree remove --force $wt >/dev/null 2>&1
git -C /repo worktree add -q $wt HEAD || exit 2
(cd $wt && git apply "$seed/patch.diff") || { echo "patch does not apply"; git -C /repo worktree remove --force $wt; exit 2; }
cd /verif && VERIF_REPO=$wt VERIF_EVIDENCE_DIR=$out/evidence VERIF_REPLAY_DIR=$out/replays ./check "$prop" "$@" > $out/log 2>&1; rc=$?
git -C /repo worktree remove --force $wt
echo "== $id vs $prop $*"
grep -E "^(VIOLATION|KNOWN-FINDING|ENGINE-MISMATCH|INCONCLUSIVE|C[0-9]+ tier)" $out/log | cut -c1-300 | head -8
grep -E "^  harness=" $out/log | cut -c1-260 | head -3
echo "exit=$rc"
