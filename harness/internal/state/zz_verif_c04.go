package state

import (
	"github.com/ProtonMail/gluon/imap"
	"github.com/ProtonMail/gluon/limits"
)

// VerifC04Recreate: histories of CREATE / DELETE / RENAME (also of INBOX, which creates a new mailbox) over two names:
// every mailbox object that comes into existence under a name gets a UIDVALIDITY strictly above every value that
// name ever had.  (The generator's monotonicity is VerifC04Generator's subject: here it counts up from 100.)
func VerifC04Recreate() {
	k := vsymParam("k")
	w := verifNewWorld(limits.DefaultLimits())
	inbox := w.db.AddBox("INBOX", "mb-inbox", 2)
	w.addMessage(inbox, 1)
	w.user.uidValSeq = 100
	st := w.newState(1)
	ctx := ctxFor(st)
	seenBox := map[imap.InternalMailboxID]bool{}
	maxUIDV := map[string]imap.UID{}
	for _, b := range w.db.Boxes {
		seenBox[b.ID] = true
		maxUIDV[b.Name] = b.UIDValidity
	}
	names := []string{"a", "b"}
	for step := 0; step < k; step++ {
		n := names[vsymChoice("name", 2)]
		switch vsymChoice("op", 4) {
		case 0:
			_ = st.Create(ctx, n)
		case 1:
			_, _ = st.Delete(ctx, n)
		case 2:
			_ = st.Rename(ctx, "INBOX", n)
		case 3:
			_ = st.Rename(ctx, n, names[vsymChoice("to", 2)])
		}
		for _, b := range w.db.Boxes {
			if !seenBox[b.ID] {
				seenBox[b.ID] = true
				if prev, had := maxUIDV[b.Name]; had {
					vsymCover("name-recreated")
					vsymAssert(b.UIDValidity > prev, "a re-created mailbox name gets a UIDVALIDITY above every earlier value of that name")
				}
			}
			if b.UIDValidity > maxUIDV[b.Name] {
				maxUIDV[b.Name] = b.UIDValidity
			}
		}
	}
}
