package session

import (
	"context"
	"time"

	"github.com/ProtonMail/gluon/imap"
	"github.com/ProtonMail/gluon/imap/command"
	"github.com/ProtonMail/gluon/internal/backend"
	"github.com/ProtonMail/gluon/internal/contexts"
	"github.com/ProtonMail/gluon/internal/response"
	"github.com/ProtonMail/gluon/internal/state"
)

// ---- the client's mirror, built only from untagged responses ----

type c1Ent struct {
	uidKnown     bool
	uid          imap.UID
	flagsKnown   bool
	flags        int  // state.VerifViewEntry mask (without \Recent)
	selfComputed bool // computed by the client after a .SILENT store, not read off a response
}

type c1Mirror struct {
	ents    []c1Ent
	noFlags bool // do not judge learned flags (the C05 registration judges counts, order and EXPUNGE placement only)
	selfTag string
	// expungeIssued: the last tagged OK said [EXPUNGEISSUED]: sequence numbers refer to messages that are gone
	expungeIssued bool
	// expunges counts the EXPUNGE responses received so far
	expunges int
}

const (
	c1Seen    = 1
	c1Deleted = 2
	c1Flagged = 4
)

func c1Mask(fs imap.FlagSet) int {
	m := 0
	if fs.Contains(imap.FlagSeen) {
		m |= c1Seen
	}
	if fs.Contains(imap.FlagDeleted) {
		m |= c1Deleted
	}
	if fs.Contains(imap.FlagFlagged) {
		m |= c1Flagged
	}
	return m
}

func (m *c1Mirror) apply(r response.Response) { m.applyDecoded(response.VerifDecode(r)) }

func (m *c1Mirror) applyDecoded(d response.VerifDecoded) {
	switch d.Kind {
	case 5:
		m.expungeIssued = d.ExpungeIssued
	case 1:
		n := int(d.N)
		vsymAssert(n >= len(m.ents), "EXISTS count shrank without EXPUNGE")
		for len(m.ents) < n {
			m.ents = append(m.ents, c1Ent{})
		}
	case 2:
		k := int(d.N)
		m.expunges++
		vsymAssert(k >= 1 && k <= len(m.ents), "EXPUNGE seq within the announced count")
		if k >= 1 && k <= len(m.ents) {
			m.ents = append(m.ents[:k-1:k-1], m.ents[k:]...)
		}
	case 3:
		k := int(d.N)
		vsymAssert(k >= 1 && k <= len(m.ents), "FETCH seq within the announced count")
		if k >= 1 && k <= len(m.ents) {
			e := &m.ents[k-1]
			if d.HasFlags {
				e.flagsKnown, e.flags, e.selfComputed = true, c1Mask(d.Flags), false
			}
			if d.HasUID {
				if e.uidKnown {
					vsymAssert(e.uid == d.UID, "FETCH reports a different UID for a sequence number whose UID the client knows")
				}
				e.uidKnown, e.uid = true, d.UID
			}
		}
	}
}

// probe compares the mirror with what the server answers to FETCH 1:* (UID FLAGS), then learns everything.
func (m *c1Mirror) probe(st *state.State) {
	var view []state.VerifViewEntry
	if err := st.Selected(context.Background(), func(mb *state.Mailbox) error { view = mb.VerifView(); return nil }); err != nil {
		vsymAssert(false, "session lost its mailbox")
		return
	}
	vsymAssert(len(m.ents) == len(view), "announced message count equals the count the server answers from")
	if len(m.ents) != len(view) {
		return
	}
	prev := imap.UID(0)
	for i, v := range view {
		e := &m.ents[i]
		vsymAssert(v.UID > prev, "UIDs strictly ascending in sequence order")
		prev = v.UID
		if e.uidKnown {
			vsymAssert(e.uid == v.UID, "sequence number still maps to the UID the client learned")
		}
		if e.flagsKnown && !m.noFlags {
			if e.selfComputed && m.selfTag != "" {
				vsymKnown(m.selfTag, true)
				vsymAssert(e.flags == v.Flags, "flags the client computed after a .SILENT store equal the flags the server answers")
				vsymKnownClear(m.selfTag)
			} else {
				vsymAssert(e.flags == v.Flags, "flags the client learned equal the flags the server answers")
			}
		}
		*e = c1Ent{uidKnown: true, uid: v.UID, flagsKnown: true, flags: v.Flags}
	}
}

// VerifC01Session: two sessions of one user have INBOX selected.  The observer issues whole commands through the
// real handlers (Session.handleCommand: STORE with and without .SILENT, FETCH with and without the \Seen side
// effect, EXPUNGE, NOOP, CHECK); the other session stores flags, expunges and copies; queued updates reach the
// observer between its commands at symbolic points (what Session.serve's select does).  Every response the
// observer's handlers put on the response channel feeds the client mirror; it is compared with the view after every
// command and, at quiescence, with a freshly selected session.
func VerifC01Session() {
	k := vsymParam("k")
	backend.VerifInboxFlags = [][]string{nil, {imap.FlagSeen}}[vsymChoice("flags0", 2)]
	obs, ch, _ := verifSession()
	backend.VerifInboxFlags = nil
	act, chAct, _ := verifSession()
	act.backend = obs.backend
	ctx := context.Background()
	// the observer may have the mailbox open read-only (EXAMINE): its STOREs are then rejected - a rejected command
	// is still a STORE as far as EXPUNGE responses are concerned
	readOnly := vsymChoice("examine", 2) == 1
	for _, s := range []*Session{obs, act} {
		c := ch
		if s == act {
			c = chAct
		}
		if err := s.handleCommand(ctx, "l", &command.Login{UserID: "alice", Password: "pw1"}, c); err != nil {
			panic(err)
		}
		var open command.Payload = &command.Select{Mailbox: "INBOX"}
		if s == obs && readOnly {
			open = &command.Examine{Mailbox: "INBOX"}
		}
		if err := s.handleCommand(state.NewStateContext(ctx, s.state), "s", open, c); err != nil {
			panic(err)
		}
	}
	obsCtx := contexts.NewDisableParallelismCtx(state.NewStateContext(ctx, obs.state), true)
	actCtx := contexts.NewDisableParallelismCtx(state.NewStateContext(ctx, act.state), true)
	drain := func(c chan response.Response, m *c1Mirror) {
		for len(c) > 0 {
			r := <-c
			if m != nil {
				m.apply(r)
			}
		}
	}
	drain(ch, nil)
	drain(chAct, nil)
	c05only := vsymParam("c05only") == 1
	mirror := &c1Mirror{noFlags: c05only}
	{
		var view []state.VerifViewEntry
		_ = obs.state.Selected(ctx, func(mb *state.Mailbox) error { view = mb.VerifView(); return nil })
		for range view {
			mirror.ents = append(mirror.ents, c1Ent{})
		}
	}
	mirror.probe(obs.state)

	f21 := false
	// natively the queue's forwarding goroutine needs a moment to move an enqueued update into the channel
	queued := func() bool {
		n := -1
		for i := 0; i < 20; i++ { // until two reads 25 ms apart agree (time.Sleep is a no-op under the engine)
			time.Sleep(25 * time.Millisecond)
			m := len(obs.state.GetStateUpdatesCh())
			if m == n {
				break
			}
			n = m
		}
		return n > 0
	}
	one := func(seq int) []command.SeqRange {
		return []command.SeqRange{{Begin: command.SeqNum(seq), End: command.SeqNum(seq)}}
	}
	flagNames := []string{imap.FlagSeen, imap.FlagDeleted, imap.FlagFlagged}
	flagMasks := []int{c1Seen, c1Deleted, c1Flagged}

	held := func() bool { // a removal is queued for the observer but not yet announced
		var h bool
		_ = obs.state.Selected(ctx, func(mb *state.Mailbox) error { h = mb.ExpungeIssued(); return nil })
		return h
	}
	// c05: obligations on one command of the observer: noExpunge = FETCH / STORE / SEARCH (and UID variants)
	c05 := func(before int, noExpunge bool) {
		if noExpunge {
			vsymAssert(mirror.expunges == before, "no EXPUNGE response while a FETCH, STORE or SEARCH is answered")
			if held() {
				vsymCover("held-back")
				vsymAssert(mirror.expungeIssued, "a FETCH, STORE or SEARCH that held back a removal says [EXPUNGEISSUED]")
			}
		} else {
			vsymAssert(!held(), "a command that permits it announces every removal that is due")
		}
	}

	for step := 0; step < k; step++ {
		switch vsymChoice("event", 8) {
		case 0: // observer: STORE seq (+|-|)FLAGS[.SILENT] (flag)
			if len(mirror.ents) == 0 {
				vsymAssume(false)
			}
			seq := 1 + vsymChoice("storeSeq", len(mirror.ents))
			ai := vsymChoice("storeAction", 3)
			fi := vsymChoice("storeFlag", 2)
			silent := vsymChoice("storeSilent", 2) == 1
			if queued() {
				f21, mirror.selfTag = true, "F21"
			}
			cmd := &command.Store{SeqSet: one(seq), Action: []command.StoreAction{command.StoreActionAddFlags, command.StoreActionRemFlags, command.StoreActionSetFlags}[ai], Flags: []string{flagNames[fi]}, Silent: silent}
			before := mirror.expunges
			err := obs.handleCommand(obsCtx, "a", cmd, ch)
			if readOnly {
				vsymCover("store-rejected")
				vsymAssert(err != nil, "STORE in a mailbox opened with EXAMINE is rejected")
				drain(ch, mirror)
				vsymAssert(mirror.expunges == before, "no EXPUNGE response while a (rejected) STORE is answered")
				mirror.probe(obs.state)
				continue
			}
			vsymAssert(err == nil, "STORE on an announced sequence number is answered")
			drain(ch, mirror)
			c05(before, true)
			if err == nil && silent && seq <= len(mirror.ents) && mirror.expungeIssued {
				// a client told [EXPUNGEISSUED] knows its numbers are stale: what its silent store did to which message
				// is not something it can compute - the flags of that entry become unknown (the most lenient model)
				mirror.ents[seq-1].flagsKnown = false
			}
			if err == nil && silent && seq <= len(mirror.ents) && !mirror.expungeIssued {
				e := &mirror.ents[seq-1]
				if e.flagsKnown { // at the tagged OK the client computes the result itself
					switch ai {
					case 0:
						e.flags |= flagMasks[fi]
					case 1:
						e.flags &^= flagMasks[fi]
					default:
						e.flags = flagMasks[fi]
					}
					e.selfComputed = true
				}
			}
			mirror.probe(obs.state)
			vsymCover("own-store")
		case 1: // observer: FETCH seq (FLAGS BODY[] | BODY.PEEK[])
			if len(mirror.ents) == 0 {
				vsymAssume(false)
			}
			seq := 1 + vsymChoice("fetchSeq", len(mirror.ents))
			peek := vsymChoice("fetchPeek", 2) == 1
			if !peek && queued() {
				f21 = true
			}
			cmd := &command.Fetch{SeqSet: one(seq), Attributes: []command.FetchAttribute{&command.FetchAttributeFlags{}, &command.FetchAttributeBodySection{Peek: peek}}}
			before := mirror.expunges
			err := obs.handleCommand(obsCtx, "a", cmd, ch)
			vsymAssert(err == nil, "FETCH of an announced sequence number is answered")
			drain(ch, mirror)
			c05(before, true)
			mirror.probe(obs.state)
			vsymCover("own-fetch")
		case 2: // observer: EXPUNGE / NOOP / CHECK
			if queued() {
				f21 = true
			}
			var cmd command.Payload = &command.Expunge{}
			switch vsymChoice("plain", 3) {
			case 1:
				cmd = &command.Noop{}
			case 2:
				cmd = &command.Check{}
			}
			before := mirror.expunges
			err := obs.handleCommand(obsCtx, "a", cmd, ch)
			if _, isExpunge := cmd.(*command.Expunge); isExpunge && readOnly {
				vsymAssert(err != nil, "EXPUNGE in a mailbox opened with EXAMINE is rejected")
				drain(ch, mirror)
				mirror.probe(obs.state)
				continue
			}
			vsymAssert(err == nil, "EXPUNGE / NOOP / CHECK is answered")
			drain(ch, mirror)
			c05(before, false)
			mirror.probe(obs.state)
			vsymCover("own-plain")
		case 3: // the other session: STORE 1 (+|-)FLAGS (flag)
			var cnt int
			_ = act.state.Selected(ctx, func(mb *state.Mailbox) error { cnt = mb.Count(); return nil })
			if cnt == 0 {
				vsymAssume(false)
			}
			cmd := &command.Store{SeqSet: one(1 + vsymChoice("actSeq", cnt)), Action: []command.StoreAction{command.StoreActionAddFlags, command.StoreActionRemFlags}[vsymChoice("actAction", 2)], Flags: []string{flagNames[vsymChoice("actFlag", 3)]}}
			vsymAssert(act.handleCommand(actCtx, "b", cmd, chAct) == nil, "STORE by the other session is answered")
			drain(chAct, nil)
		case 4: // the other session: EXPUNGE (after marking message 1 \Deleted) or COPY 1 INBOX
			var cnt int
			_ = act.state.Selected(ctx, func(mb *state.Mailbox) error { cnt = mb.Count(); return nil })
			if cnt == 0 {
				vsymAssume(false)
			}
			if vsymChoice("actCopy", 2) == 1 {
				vsymAssert(act.handleCommand(actCtx, "b", &command.Copy{SeqSet: one(1), Mailbox: "INBOX"}, chAct) == nil, "COPY by the other session is answered")
			} else {
				vsymAssert(act.handleCommand(actCtx, "b", &command.Store{SeqSet: one(1), Action: command.StoreActionAddFlags, Flags: []string{imap.FlagDeleted}, Silent: true}, chAct) == nil, "STORE by the other session is answered")
				vsymAssert(act.handleCommand(actCtx, "b", &command.Expunge{}, chAct) == nil, "EXPUNGE by the other session is answered")
			}
			drain(chAct, nil)
		case 5: // the next queued update reaches the observer (between two of its commands)
			if !queued() {
				vsymAssume(false)
			}
			u := <-obs.state.GetStateUpdatesCh()
			vsymAssert(obs.state.ApplyUpdate(obsCtx, u) == nil, "update applies")
			vsymCover("update-delivered")
		case 7: // observer: SEARCH ALL / UID SEARCH ALL / UID FETCH 1:* (FLAGS)
			var cmd command.Payload
			switch vsymChoice("searchKind", 3) {
			case 0:
				cmd = &command.Search{Keys: []command.SearchKey{&command.SearchKeyAll{}}}
			case 1:
				cmd = &command.UID{Command: &command.Search{Keys: []command.SearchKey{&command.SearchKeyAll{}}}}
			case 2:
				cmd = &command.UID{Command: &command.Fetch{SeqSet: []command.SeqRange{{Begin: 1, End: 0}}, Attributes: []command.FetchAttribute{&command.FetchAttributeFlags{}}}}
			}
			before := mirror.expunges
			err := obs.handleCommand(obsCtx, "a", cmd, ch)
			vsymAssert(err == nil, "SEARCH / UID SEARCH / UID FETCH is answered")
			drain(ch, mirror)
			c05(before, true)
			mirror.probe(obs.state)
			vsymCover("own-search")
		case 6: // every queued update reaches the observer
			for queued() {
				u := <-obs.state.GetStateUpdatesCh()
				vsymAssert(obs.state.ApplyUpdate(obsCtx, u) == nil, "update applies")
			}
		}
	}
	// quiescence: everything delivered, NOOP
	for queued() {
		u := <-obs.state.GetStateUpdatesCh()
		vsymAssert(obs.state.ApplyUpdate(obsCtx, u) == nil, "update applies")
	}
	vsymAssert(obs.handleCommand(obsCtx, "z", &command.Noop{}, ch) == nil, "NOOP is answered")
	drain(ch, mirror)
	mirror.probe(obs.state)
	if c05only {
		return // convergence with a fresh session is C02's statement
	}
	if f21 {
		vsymKnown("F21", true) // the convergence obligations below are where F21 shows for good
	}
	fresh, chF, _ := verifSession()
	fresh.backend = obs.backend
	if err := fresh.handleCommand(ctx, "l", &command.Login{UserID: "alice", Password: "pw1"}, chF); err != nil {
		panic(err)
	}
	if err := fresh.handleCommand(state.NewStateContext(ctx, fresh.state), "s", &command.Examine{Mailbox: "INBOX"}, chF); err != nil {
		panic(err)
	}
	var got, want []state.VerifViewEntry
	_ = obs.state.Selected(ctx, func(mb *state.Mailbox) error { got = mb.VerifView(); return nil })
	_ = fresh.state.Selected(ctx, func(mb *state.Mailbox) error { want = mb.VerifView(); return nil })
	vsymAssert(len(got) == len(want), "after NOOP the session sees exactly the messages of the mailbox")
	if len(got) == len(want) {
		for i := range want {
			vsymAssert(got[i].ID == want[i].ID && got[i].UID == want[i].UID, "same messages and UIDs as a fresh session")
			vsymAssert(got[i].Flags == want[i].Flags, "same flags as a fresh session (ignoring \\Recent)")
		}
	}
}
