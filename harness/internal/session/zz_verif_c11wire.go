package session

import (
	"context"
	"io"
	"net"
	"strings"

	"github.com/ProtonMail/gluon/events"
	"github.com/ProtonMail/gluon/internal/backend"
	"github.com/ProtonMail/gluon/version"
)

// verifScriptConn is the client's side of a connection: it serves a byte script, then end of stream, and records
// what the session writes.
type verifScriptConn struct {
	net.Conn
	in    []byte
	pos   int
	lines []string
}

func (c *verifScriptConn) Read(b []byte) (int, error) {
	if c.pos >= len(c.in) {
		return 0, io.EOF
	}
	n := copy(b, c.in[c.pos:])
	c.pos += n
	return n, nil
}
func (c *verifScriptConn) Write(b []byte) (int, error) {
	c.lines = append(c.lines, strings.TrimRight(string(b), "\r\n"))
	return len(b), nil
}
func (c *verifScriptConn) Close() error { return nil }

// VerifC11Wire: the whole session loop on the wire (Session.serve with its command-reader goroutine, bufio, the input
// collector, command.Parser, ConsumeInvalidInput, the error counter, handleOther's handler goroutine, handleLogout)
// under the cooperative goroutine model: after a prefix that puts the session into one of the three protocol states, a
// line of n arbitrary bytes arrives, then "z LOGOUT".  The loop must not panic or dead-lock, must answer the
// arbitrary line (a tagged or untagged BAD / NO / OK) and must still serve the command that follows it.
func VerifC11Wire() {
	n := vsymParam("n")
	pre := []string{"", "a LOGIN alice pw1\r\n", "a LOGIN alice pw1\r\nb SELECT INBOX\r\n"}[vsymParam("state")]
	junk := vsymBytes("wire", n)
	for i, b := range junk {
		vsymAssume(b != '{') // a literal announcement would make the following lines part of this command
		if i == 0 {
			vsymAssume(b != 0x16) // a TLS hand-shake header closes the connection by design
		}
	}
	script := append(append([]byte(pre), junk...), []byte("\r\nz LOGOUT\r\n")...)
	conn := &verifScriptConn{in: script}
	ev := make(chan events.Event, 64)
	s := New(conn, backend.VerifNewBackendUsers(), 1, version.Info{}, nil, ev, 0, nil)
	err := s.serve(context.Background())
	vsymSched()
	vsymCover("served")
	for _, l := range conn.lines {
		vsymLog("wire-line", l)
	}
	vsymLog("serve-err", err)
	vsymAssert(err == nil, "the session loop ends without an error after LOGOUT")
	answered := false
	for _, l := range conn.lines {
		if strings.HasPrefix(l, "z OK") {
			answered = true
		}
	}
	vsymAssert(answered, "after an arbitrary line the session still serves the next command (LOGOUT answered)")
	// the prefix commands were answered OK
	nOK := 0
	for _, l := range conn.lines {
		if strings.HasPrefix(l, "a OK") || strings.HasPrefix(l, "b OK") {
			nOK++
		}
	}
	vsymAssert(nOK == strings.Count(pre, "\r\n"), "the commands before the arbitrary line were served")
	// the arbitrary line itself got an answer: some tagged / untagged BAD or NO line, or it was empty / a valid command
	vsymAssert(len(conn.lines) >= strings.Count(pre, "\r\n")+2, "every line got an answer")
}

// VerifC11WireLines: m command lines, each chosen from a pool of well-formed and malformed tagged lines (any protocol
// state may result), then LOGOUT, through the same session loop: every line is answered by exactly one completion
// result carrying the line's tag, in order, and the session stays usable to the end.
func VerifC11WireLines() {
	m := vsymParam("m")
	pool := []string{"NOOP", "BOGUS", "FETCH 1 (", "SELECT INBOX", "LOGIN alice pw1", "LOGIN alice \"pw", "SEARCH OR", "UID FETCH 1:* (FLAGS)", "STORE 1 +FLAGS (\\Seen"}
	var script []byte
	var tags []string
	// what each line must be answered with given the protocol state the earlier lines produced (C18 gating seen on
	// the wire): NOOP always OK; malformed lines BAD; SELECT needs a LOGIN, UID FETCH a SELECT, a second LOGIN is refused
	var want []string
	authed, selected := false, false
	for i := 0; i < m; i++ {
		tag := "t" + string(rune('0'+i))
		tags = append(tags, tag)
		li := vsymChoice("line", len(pool))
		script = append(script, (tag + " " + pool[li] + "\r\n")...)
		switch li {
		case 0:
			want = append(want, "OK")
		case 3:
			if authed {
				want, selected = append(want, "OK"), true
			} else {
				want = append(want, "NO")
			}
		case 4:
			if authed {
				want = append(want, "refused") // NO or BAD
			} else {
				want, authed = append(want, "OK"), true
			}
		case 7:
			if selected {
				want = append(want, "OK")
			} else {
				want = append(want, "NO")
			}
		default:
			want = append(want, "BAD")
		}
	}
	want = append(want, "OK")
	tags = append(tags, "z")
	script = append(script, "z LOGOUT\r\n"...)
	conn := &verifScriptConn{in: script}
	ev := make(chan events.Event, 64)
	s := New(conn, backend.VerifNewBackendUsers(), 1, version.Info{}, nil, ev, 0, nil)
	err := s.serve(context.Background())
	vsymSched()
	vsymCover("lines-served")
	vsymAssert(err == nil, "the session loop ends without an error after LOGOUT")
	var got, kinds []string
	for _, l := range conn.lines {
		if strings.HasPrefix(l, "* ") || strings.HasPrefix(l, "+ ") || l == "+" {
			continue
		}
		f := strings.Fields(l)
		if len(f) >= 2 && (f[1] == "OK" || f[1] == "NO" || f[1] == "BAD") {
			got = append(got, f[0])
			kinds = append(kinds, f[1])
		} else {
			vsymAssert(false, "every line the session writes is an untagged response, a continuation request or a tagged completion result")
		}
	}
	vsymAssert(len(got) == len(tags), "every command line is answered by exactly one completion result")
	if len(got) == len(tags) {
		for i := range tags {
			vsymAssert(got[i] == tags[i], "completion results carry the tags of the lines, in order")
			vsymAssert(kinds[i] == want[i] || (want[i] == "refused" && kinds[i] != "OK"), "each line is accepted, refused or rejected as the protocol state at that point demands (gating by LOGIN / SELECT)")
		}
	}
}
