package command

import (
	"time"
)

// ---- SEARCH: key trees ----

type c10Key struct {
	kind int
	s1   []byte
	s2   []byte
	n    int
	t    time.Time
	set  []SeqRange
	sub  []c10Key
}

var c10PlainKeys = []string{"ALL", "ANSWERED", "DELETED", "FLAGGED", "NEW", "OLD", "RECENT", "SEEN", "UNANSWERED", "UNDELETED", "UNFLAGGED", "UNSEEN", "DRAFT", "UNDRAFT"}
var c10StringKeys = []string{"BCC", "BODY", "CC", "FROM", "SUBJECT", "TEXT", "TO"}
var c10DateKeys = []string{"BEFORE", "ON", "SINCE", "SENTBEFORE", "SENTON", "SENTSINCE"}
var c10Months = []string{"Jan", "Feb", "Mar", "Apr", "May", "Jun", "Jul", "Aug", "Sep", "Oct", "Nov", "Dec"}

// digits prints exactly nd symbolic decimal digits and returns their value.
func (p *c10Printer) digits(nd int) int {
	v := 0
	for i := 0; i < nd; i++ {
		d := vsymByte("digit")
		vsymAssume(d >= '0')
		vsymAssume(d <= '9')
		p.b = append(p.b, d)
		v = v*10 + (int(d) - int('0'))
	}
	return v
}

// date prints date-text (optionally quoted): 1*2DIGIT "-" month "-" 4DIGIT
func (p *c10Printer) date() time.Time {
	quoted := vsymChoice("dateQuoted", 2) == 1
	if quoted {
		p.raw("\"")
	}
	d := p.digits(1 + vsymChoice("dayDigits", 2))
	p.raw("-")
	mi := vsymChoice("month", 12)
	p.kw(c10Months[mi])
	p.raw("-")
	y := p.digits(4)
	if quoted {
		p.raw("\"")
	}
	return time.Date(y, time.Month(mi+1), d, 0, 0, 0, 0, time.UTC)
}

func (p *c10Printer) searchKey(depth int) c10Key {
	fam := vsymParam("fam")
	var k c10Key
	nk := 5
	if depth > 0 {
		nk = 8
	}
	var group int
	switch fam {
	case 0: // keys without argument, numbers, sets; composites when depth allows
		group = []int{0, 3, 4, 5, 6, 7, 8, 9}[vsymChoice("keyGroup", nk)]
	case 1: // string valued keys
		group = 1 + vsymChoice("keyGroup", 2)*9 // 1 or 10
	default: // dates
		group = 2
	}
	switch group {
	case 0:
		i := vsymChoice("plain", len(c10PlainKeys))
		p.kw(c10PlainKeys[i])
		k.kind = i
	case 1:
		i := vsymChoice("strKey", len(c10StringKeys))
		p.kw(c10StringKeys[i])
		p.raw(" ")
		k.kind = 14 + i
		k.s1 = vsymBytes("keyStr", 1+vsymParam("slen"))
		p.astring(k.s1, 0)
	case 10:
		p.kw("HEADER")
		p.raw(" ")
		k.kind = 23
		k.s1 = vsymBytes("hdrField", 1)
		p.astring(k.s1, 0)
		p.raw(" ")
		k.s2 = vsymBytes("hdrValue", 1+vsymParam("slen"))
		p.astring(k.s2, 0)
	case 2:
		i := vsymChoice("dateKey", len(c10DateKeys))
		p.kw(c10DateKeys[i])
		p.raw(" ")
		k.kind = 26 + i
		k.t = p.date()
	case 3:
		i := vsymChoice("numKey", 2)
		p.kw([]string{"LARGER", "SMALLER"}[i])
		p.raw(" ")
		k.kind = 24 + i
		k.n = p.number(3, true)
	case 4:
		i := vsymChoice("kwKey", 2)
		p.kw([]string{"KEYWORD", "UNKEYWORD"}[i])
		p.raw(" ")
		k.kind = 21 + i
		k.s1 = vsymBytes("kwAtom", 1+vsymChoice("kwLen", 2))
		for _, c := range k.s1 {
			vsymAssume(c10AtomChar(c))
			vsymAssume(c != '[')
		}
		p.b = append(p.b, k.s1...)
	case 5:
		p.kw("UID")
		p.raw(" ")
		k.kind = 32
		k.set = p.seqSet(1 + vsymChoice("setLen", 2))
	case 6:
		k.kind = 33
		k.set = p.seqSet(1 + vsymChoice("setLen", 2))
	case 7:
		p.kw("NOT")
		p.raw(" ")
		k.kind = 34
		k.sub = []c10Key{p.searchKey(depth - 1)}
	case 8:
		p.kw("OR")
		p.raw(" ")
		k.kind = 35
		a := p.searchKey(depth - 1)
		p.raw(" ")
		b := p.searchKey(depth - 1)
		k.sub = []c10Key{a, b}
	case 9:
		p.raw("(")
		k.kind = 36
		n := 1 + vsymChoice("listLen", 2)
		for i := 0; i < n; i++ {
			if i > 0 {
				p.raw(" ")
			}
			k.sub = append(k.sub, p.searchKey(depth-1))
		}
		p.raw(")")
	}
	return k
}

// c10KeyParts flattens a parsed search key into comparable parts.
func c10KeyParts(k SearchKey) (kind int, s1, s2 string, n int, t time.Time, set []SeqRange, sub []SearchKey) {
	kind = -1
	switch v := k.(type) {
	case *SearchKeyAll:
		kind = 0
	case *SearchKeyAnswered:
		kind = 1
	case *SearchKeyDeleted:
		kind = 2
	case *SearchKeyFlagged:
		kind = 3
	case *SearchKeyNew:
		kind = 4
	case *SearchKeyOld:
		kind = 5
	case *SearchKeyRecent:
		kind = 6
	case *SearchKeySeen:
		kind = 7
	case *SearchKeyUnanswered:
		kind = 8
	case *SearchKeyUndeleted:
		kind = 9
	case *SearchKeyUnflagged:
		kind = 10
	case *SearchKeyUnseen:
		kind = 11
	case *SearchKeyDraft:
		kind = 12
	case *SearchKeyUndraft:
		kind = 13
	case *SearchKeyBCC:
		kind, s1 = 14, v.Value
	case *SearchKeyBody:
		kind, s1 = 15, v.Value
	case *SearchKeyCC:
		kind, s1 = 16, v.Value
	case *SearchKeyFrom:
		kind, s1 = 17, v.Value
	case *SearchKeySubject:
		kind, s1 = 18, v.Value
	case *SearchKeyText:
		kind, s1 = 19, v.Value
	case *SearchKeyTo:
		kind, s1 = 20, v.Value
	case *SearchKeyKeyword:
		kind, s1 = 21, v.Value
	case *SearchKeyUnkeyword:
		kind, s1 = 22, v.Value
	case *SearchKeyHeader:
		kind, s1, s2 = 23, v.Field, v.Value
	case *SearchKeyLarger:
		kind, n = 24, v.Value
	case *SearchKeySmaller:
		kind, n = 25, v.Value
	case *SearchKeyBefore:
		kind, t = 26, v.Value
	case *SearchKeyOn:
		kind, t = 27, v.Value
	case *SearchKeySince:
		kind, t = 28, v.Value
	case *SearchKeySentBefore:
		kind, t = 29, v.Value
	case *SearchKeySentOn:
		kind, t = 30, v.Value
	case *SearchKeySentSince:
		kind, t = 31, v.Value
	case *SearchKeyUID:
		kind, set = 32, v.SeqSet
	case *SearchKeySeqSet:
		kind, set = 33, v.SeqSet
	case *SearchKeyNot:
		kind, sub = 34, []SearchKey{v.Key}
	case *SearchKeyOr:
		kind, sub = 35, []SearchKey{v.Key1, v.Key2}
	case *SearchKeyList:
		kind, sub = 36, v.Keys
	}
	return
}

func c10KeyEq(got SearchKey, want c10Key) bool {
	kind, s1, s2, n, t, set, sub := c10KeyParts(got)
	if kind != want.kind || len(sub) != len(want.sub) {
		return false
	}
	ok := true
	switch {
	case kind >= 14 && kind <= 23:
		ok = vsymAnd(s1 == string(want.s1), s2 == string(want.s2))
	case kind == 24 || kind == 25:
		ok = n == want.n
	case kind >= 26 && kind <= 31:
		ok = t.Equal(want.t)
	case kind == 32 || kind == 33:
		ok = c10SameSeqSet(set, want.set)
	}
	for i := range sub {
		ok = vsymAnd(ok, c10KeyEq(sub[i], want.sub[i]))
	}
	return ok
}

// VerifC10Search: [UID] SEARCH [CHARSET astring] key *(SP key)
func VerifC10Search() {
	p := &c10Printer{}
	tag := c10Tag(p)
	p.raw(" ")
	uid := vsymChoice("uid", 2) == 1
	if uid {
		p.kw("UID")
		p.raw(" ")
	}
	p.kw("SEARCH")
	p.raw(" ")
	var charset []byte
	if vsymChoice("charset", 2) == 1 {
		p.kw("CHARSET")
		p.raw(" ")
		charset = vsymBytes("charset", 1)
		p.astring(charset, 0)
		p.raw(" ")
	}
	nkeys := 1 + vsymParam("nkeys")
	var want []c10Key
	for i := 0; i < nkeys; i++ {
		if i > 0 {
			p.raw(" ")
		}
		want = append(want, p.searchKey(vsymParam("depth")))
	}
	p.raw("\r\n")
	cmd, err := c10Parse(p)
	vsymAssert(err == nil, "a syntactically valid SEARCH parses")
	if err != nil {
		return
	}
	vsymAssert(cmd.Tag == tag, "tag is what was written")
	pl, ok := c10Unwrap(cmd, uid).(*Search)
	vsymAssert(ok, "SEARCH payload")
	if !ok {
		return
	}
	vsymAssert(pl.Charset == string(charset), "CHARSET argument")
	vsymAssert(len(pl.Keys) == len(want), "no search key dropped or added")
	if len(pl.Keys) != len(want) {
		return
	}
	for i := range want {
		vsymAssert(c10KeyEq(pl.Keys[i], want[i]), "search key tree as written (kind, arguments, order)")
	}
}

// ---- APPEND ----

func VerifC10Append() {
	p := &c10Printer{}
	tag := c10Tag(p)
	p.raw(" ")
	p.kw("APPEND")
	p.raw(" ")
	mbox := vsymBytes("mbox", 1)
	p.astring(mbox, 0)
	p.raw(" ")
	var flags [][]byte
	fam := vsymParam("fam") // 0: flag list variants, 1: date-time variants, 2: both present
	hasFlags := fam == 2 || fam == 0 && vsymChoice("hasFlags", 2) == 1
	if hasFlags {
		p.raw("(")
		nf := vsymChoice("nflags", 3)
		for i := 0; i < nf; i++ {
			if i > 0 {
				p.raw(" ")
			}
			flags = append(flags, p.flag())
		}
		p.raw(") ")
	}
	var when time.Time
	if fam == 2 || fam == 1 && vsymChoice("hasDate", 2) == 1 {
		p.raw("\"")
		var d int
		if vsymChoice("dayFixed", 2) == 1 {
			p.raw(" ")
			d = p.digits(1)
		} else {
			d = p.digits(2)
		}
		p.raw("-")
		mi := vsymChoice("month", 12)
		p.kw(c10Months[mi])
		p.raw("-")
		y := p.digits(4)
		p.raw(" ")
		h := p.digits(2)
		p.raw(":")
		mn := p.digits(2)
		p.raw(":")
		s := p.digits(2)
		p.raw(" ")
		sign := 1
		if vsymChoice("zoneSign", 2) == 1 {
			sign = -1
			p.raw("-")
		} else {
			p.raw("+")
		}
		zh := p.digits(2)
		zm := p.digits(2)
		p.raw("\" ")
		when = time.Date(y, time.Month(mi+1), d, h, mn, s, 0, time.FixedZone("zone", (zh*3600+zm*60)*sign))
	}
	lit := vsymBytes("literal", 1+vsymParam("litlen"))
	p.raw("{")
	p.raw(c10Itoa(len(lit)))
	p.raw("}\r\n")
	p.b = append(p.b, lit...)
	p.raw("\r\n")
	cmd, err := c10Parse(p)
	vsymAssert(err == nil, "a syntactically valid APPEND parses")
	if err != nil {
		return
	}
	vsymAssert(cmd.Tag == tag, "tag is what was written")
	pl, ok := cmd.Payload.(*Append)
	vsymAssert(ok, "APPEND payload")
	if !ok {
		return
	}
	vsymAssert(c10MailboxEq(pl.Mailbox, mbox), "APPEND mailbox")
	vsymAssert(len(pl.Flags) == len(flags), "APPEND flag list complete")
	if len(pl.Flags) == len(flags) {
		for i := range flags {
			vsymAssert(pl.Flags[i] == string(flags[i]), "APPEND flag byte-exact and in order")
		}
	}
	vsymAssert(pl.DateTime.Equal(when), "APPEND date-time (zero when absent)")
	vsymAssert(string(pl.Literal) == string(lit), "APPEND literal byte-exact")
}

// ---- LIST / LSUB / ID / UID EXPUNGE / commands without arguments ----

func c10ListChar(c byte) bool {
	return vsymOr(c10AtomChar(c), vsymOr(c == '%', vsymOr(c == '*', c == ']')))
}

func VerifC10Misc() {
	p := &c10Printer{}
	tag := c10Tag(p)
	p.raw(" ")
	which := vsymChoice("cmd", 14)
	var a, b, c, d []byte
	var set []SeqRange
	nilForm, nilValue := false, false
	switch which {
	case 0, 1:
		p.kw([]string{"LIST", "LSUB"}[which])
		p.raw(" ")
		a = vsymBytes("ref", vsymChoice("refLen", 2))
		if len(a) == 0 {
			p.raw("\"\"")
		} else {
			p.astring(a, 0)
		}
		p.raw(" ")
		b = vsymBytes("pattern", 1+vsymChoice("patLen", 2))
		if vsymChoice("patForm", 2) == 0 {
			for _, ch := range b {
				vsymAssume(c10ListChar(ch))
				vsymAssume(ch != '[')
			}
			p.b = append(p.b, b...)
		} else {
			p.astring(b, 1)
		}
	case 2:
		p.kw("ID")
		p.raw(" ")
		nilForm = vsymChoice("idNil", 2) == 1
		if nilForm {
			p.kw("NIL")
		} else {
			p.raw("(")
			a = vsymBytes("idKey1", 1)
			p.astring(a, 1)
			p.raw(" ")
			nilValue = vsymChoice("idValueNil", 2) == 1
			if nilValue {
				p.kw("NIL")
			} else {
				b = vsymBytes("idVal1", 1)
				p.astring(b, 1)
			}
			if vsymChoice("idTwo", 2) == 1 {
				p.raw(" ")
				c = vsymBytes("idKey2", 1)
				p.astring(c, 1)
				p.raw(" ")
				d = vsymBytes("idVal2", 1)
				p.astring(d, 1)
				vsymAssume(string(a) != string(c))
			}
			p.raw(")")
		}
	case 3:
		p.kw("UID")
		p.raw(" ")
		p.kw("EXPUNGE")
		p.raw(" ")
		set = p.seqSet(1 + vsymChoice("setLen", 2))
	default:
		p.kw([]string{"NOOP", "CHECK", "CLOSE", "EXPUNGE", "UNSELECT", "LOGOUT", "CAPABILITY", "IDLE", "STARTTLS", "DONE"}[which-4])
		if which == 13 { // DONE has no tag: not a tagged command - excluded
			vsymAssume(false)
		}
	}
	p.raw("\r\n")
	cmd, err := c10Parse(p)
	vsymAssert(err == nil, "a syntactically valid command parses")
	if err != nil {
		return
	}
	vsymAssert(cmd.Tag == tag, "tag is what was written")
	ok := false
	switch which {
	case 0:
		var pl *List
		pl, ok = cmd.Payload.(*List)
		if ok {
			vsymAssert(c10MailboxEq(pl.Mailbox, a) && pl.ListMailbox == string(b), "LIST reference and pattern")
		}
	case 1:
		var pl *LSub
		pl, ok = cmd.Payload.(*LSub)
		if ok {
			vsymAssert(c10MailboxEq(pl.Mailbox, a) && pl.LSubMailbox == string(b), "LSUB reference and pattern")
		}
	case 2:
		if nilForm {
			_, ok = cmd.Payload.(*IDGet)
		} else {
			var pl *IDSet
			pl, ok = cmd.Payload.(*IDSet)
			if ok {
				n := 1
				v1, has1 := pl.Values[string(a)]
				vsymAssert(has1, "ID first key present")
				if nilValue {
					vsymAssert(v1 == "", "ID NIL value")
				} else {
					vsymAssert(v1 == string(b), "ID first value")
				}
				if c != nil {
					n = 2
					v2, has2 := pl.Values[string(c)]
					vsymAssert(has2 && v2 == string(d), "ID second pair")
				}
				vsymAssert(len(pl.Values) == n, "ID pairs: none dropped or added")
			}
		}
	case 3:
		var pl *UIDExpunge
		pl, ok = cmd.Payload.(*UIDExpunge) // the UIDPLUS command has its own payload type (no UID wrapper)
		if ok {
			vsymAssert(c10SameSeqSet(pl.SeqSet, set), "UID EXPUNGE set")
		}
	case 4:
		_, ok = cmd.Payload.(*Noop)
	case 5:
		_, ok = cmd.Payload.(*Check)
	case 6:
		_, ok = cmd.Payload.(*Close)
	case 7:
		_, ok = cmd.Payload.(*Expunge)
	case 8:
		_, ok = cmd.Payload.(*Unselect)
	case 9:
		_, ok = cmd.Payload.(*Logout)
	case 10:
		_, ok = cmd.Payload.(*Capability)
	case 11:
		_, ok = cmd.Payload.(*Idle)
	case 12:
		_, ok = cmd.Payload.(*StartTLS)
	}
	vsymAssert(ok, "payload is the command that was written")
}
