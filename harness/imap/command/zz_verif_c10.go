package command

import (
	"github.com/ProtonMail/gluon/rfcparser"
)

// ---- printer: builds the bytes of a command from an abstract command with symbolic leaves ----

type c10Printer struct {
	b []byte
}

func (p *c10Printer) raw(s string) { p.b = append(p.b, s...) }

// kw prints a keyword with a symbolic letter case for every letter.
func (p *c10Printer) kw(s string) {
	if vsymParam("symcase") == 0 {
		p.raw(s)
		return
	}
	for i := 0; i < len(s); i++ {
		c := s[i]
		if c >= 'A' && c <= 'Z' || c >= 'a' && c <= 'z' {
			p.b = append(p.b, byte(vsymIteInt(vsymBool("kwUpper"), int(c&^0x20), int(c|0x20))))
		} else {
			p.b = append(p.b, c)
		}
	}
}

// isAtomSpecial: RFC 3501 atom-specials = "(" / ")" / "{" / SP / CTL / list-wildcards / quoted-specials / resp-specials
func c10AtomChar(c byte) bool {
	ok := vsymAnd(c > 32, c < 127)
	for _, s := range []byte{'(', ')', '{', '%', '*', '"', '\\', ']'} {
		ok = vsymAnd(ok, c != s)
	}
	return ok
}

// astring prints payload in one of the three encodings (symbolic choice) and constrains the payload accordingly.
// kind: 0 astring (ASTRING-CHAR atoms allowed), 1 string only (quoted / literal).
func (p *c10Printer) astring(payload []byte, kind int) {
	enc := vsymChoice("encoding", 3)
	if kind == 1 && enc == 0 {
		enc = 1
	}
	switch enc {
	case 0: // atom form: 1*ASTRING-CHAR ; ASTRING-CHAR = ATOM-CHAR / resp-specials
		if len(payload) == 0 {
			vsymAssume(false)
		}
		for _, c := range payload {
			vsymAssume(vsymOr(c10AtomChar(c), c == ']'))
			// known deviation of the server's grammar subset ("the grammar subset the server supports"): '[' is not accepted in atoms
			vsymAssume(c != '[')
		}
		p.b = append(p.b, payload...)
	case 1: // quoted: TEXT-CHAR with quoted-specials escaped
		p.b = append(p.b, '"')
		for _, c := range payload {
			vsymAssume(vsymAnd(c >= 1, c < 128))
			vsymAssume(c != '\r')
			vsymAssume(c != '\n')
			if c == '"' || c == '\\' {
				p.b = append(p.b, '\\')
			}
			p.b = append(p.b, c)
		}
		p.b = append(p.b, '"')
	case 2: // literal: any CHAR8; the size is printed in decimal (lengths are concrete)
		if len(payload) == 0 {
			vsymAssume(false) // the server's scanner needs one byte of look-ahead: empty literals are outside its subset
		}
		for _, c := range payload {
			vsymAssume(c != 0)
		}
		p.raw("{")
		p.raw(c10Itoa(len(payload)))
		p.raw("}\r\n")
		p.b = append(p.b, payload...)
	}
}

func c10Itoa(n int) string {
	if n == 0 {
		return "0"
	}
	var d []byte
	for n > 0 {
		d = append([]byte{byte('0' + n%10)}, d...)
		n /= 10
	}
	return string(d)
}

// number prints nd symbolic digits (first one non-zero) and returns the value.
func (p *c10Printer) nzNumber(nd int) int {
	v := 0
	for i := 0; i < nd; i++ {
		d := vsymByte("digit")
		vsymAssume(d <= '9')
		if i == 0 {
			vsymAssume(d >= '1')
		} else {
			vsymAssume(d >= '0')
		}
		p.b = append(p.b, d)
		v = v*10 + (int(d) - int('0'))
	}
	return v
}

// seqSet prints a sequence set of r elements and returns what it denotes.
func (p *c10Printer) seqSet(r int) []SeqRange {
	var out []SeqRange
	for i := 0; i < r; i++ {
		if i > 0 {
			p.raw(",")
		}
		one := func() SeqNum {
			if vsymChoice("star", 2) == 1 {
				p.raw("*")
				return SeqNumValueAsterisk
			}
			nd := 1
			if vsymParam("bigset") == 1 {
				nd = []int{1, 9, 10}[vsymChoice("ndigits", 3)] // up to the whole 32-bit range
			}
			n := p.nzNumber(nd)
			vsymAssume(n <= 4294967295)
			return SeqNum(n)
		}
		b := one()
		if vsymChoice("range", 2) == 1 {
			p.raw(":")
			e := one()
			out = append(out, SeqRange{Begin: b, End: e})
		} else {
			out = append(out, SeqRange{Begin: b, End: b})
		}
	}
	return out
}

func c10SameSeqSet(a, b []SeqRange) bool {
	if len(a) != len(b) {
		return false
	}
	ok := true
	for i := range a {
		ok = vsymAnd(ok, vsymAnd(a[i].Begin == b[i].Begin, a[i].End == b[i].End))
	}
	return ok
}

func c10Tag(p *c10Printer) string {
	if vsymParam("symtag") == 0 {
		p.raw("a1")
		return "a1"
	}
	n := 1 + vsymChoice("tagLen", 2)
	t := vsymBytes("tag", n)
	for _, c := range t {
		vsymAssume(vsymOr(c10AtomChar(c), c == ']'))
		vsymAssume(c != '+')
		vsymAssume(c != '[')
	}
	// "DONE" is not a tag; a tag spelled like it is outside the grammar subset
	p.b = append(p.b, t...)
	return string(t)
}

// mailbox compares a parsed mailbox with the written one: INBOX is case-insensitive and normalised.
func c10MailboxEq(got string, want []byte) bool {
	if len(want) == 5 {
		isInbox := true
		for i, c := range []byte("inbox") {
			isInbox = vsymAnd(isInbox, want[i]|0x20 == c)
		}
		if isInbox {
			return got == "INBOX"
		}
	}
	return got == string(want)
}

func c10Parse(p *c10Printer) (Command, error) {
	chunked := vsymParam("chunked") == 1
	r := &verifReader{buf: p.b, eofLimit: 8, shortReads: chunked}
	parser := NewParser(rfcparser.NewScannerWithReader(r))
	return parser.Parse()
}

// VerifC10Strings: commands whose arguments are strings / mailboxes, each in any of the three encodings.
func VerifC10Strings() {
	L := vsymParam("len")
	p := &c10Printer{}
	tag := c10Tag(p)
	p.raw(" ")
	which := vsymParam("cmd")
	if which < 0 {
		which = vsymChoice("cmd", 11)
	}
	a := vsymBytes("argA", L)
	var b []byte
	switch which {
	case 0:
		p.kw("LOGIN")
		p.raw(" ")
		p.astring(a, 0)
		p.raw(" ")
		b = vsymBytes("argB", L)
		p.astring(b, 0)
	case 1, 2, 3, 4, 5, 6:
		p.kw([]string{"SELECT", "EXAMINE", "CREATE", "DELETE", "SUBSCRIBE", "UNSUBSCRIBE"}[which-1])
		p.raw(" ")
		p.astring(a, 0)
	case 7:
		p.kw("RENAME")
		p.raw(" ")
		p.astring(a, 0)
		p.raw(" ")
		b = vsymBytes("argB", L)
		p.astring(b, 0)
	case 8, 9:
		p.kw([]string{"COPY", "MOVE"}[which-8])
		p.raw(" ")
	case 10:
		p.kw("STATUS")
		p.raw(" ")
		p.astring(a, 0)
		p.raw(" (")
		p.kw("MESSAGES")
		p.raw(" ")
		p.kw("UIDNEXT")
		p.raw(")")
	}
	var set []SeqRange
	if which == 8 || which == 9 {
		nset := 1
		if vsymParam("bigset") == 0 {
			nset += vsymChoice("setLen", 2)
		}
		set = p.seqSet(nset)
		p.raw(" ")
		p.astring(a, 0)
	}
	p.raw("\r\n")
	cmd, err := c10Parse(p)
	vsymAssert(err == nil, "a syntactically valid command parses")
	if err != nil {
		return
	}
	vsymAssert(cmd.Tag == tag, "tag is what was written")
	switch which {
	case 0:
		pl, ok := cmd.Payload.(*Login)
		vsymAssert(ok, "LOGIN payload")
		if ok {
			vsymAssert(pl.UserID == string(a), "LOGIN user id byte-exact")
			vsymAssert(pl.Password == string(b), "LOGIN password byte-exact")
		}
	case 1:
		pl, ok := cmd.Payload.(*Select)
		vsymAssert(ok && c10MailboxEq(pl.Mailbox, a), "SELECT mailbox")
	case 2:
		pl, ok := cmd.Payload.(*Examine)
		vsymAssert(ok && c10MailboxEq(pl.Mailbox, a), "EXAMINE mailbox")
	case 3:
		pl, ok := cmd.Payload.(*Create)
		vsymAssert(ok && c10MailboxEq(pl.Mailbox, a), "CREATE mailbox")
	case 4:
		pl, ok := cmd.Payload.(*Delete)
		vsymAssert(ok && c10MailboxEq(pl.Mailbox, a), "DELETE mailbox")
	case 5:
		pl, ok := cmd.Payload.(*Subscribe)
		vsymAssert(ok && c10MailboxEq(pl.Mailbox, a), "SUBSCRIBE mailbox")
	case 6:
		pl, ok := cmd.Payload.(*Unsubscribe)
		vsymAssert(ok && c10MailboxEq(pl.Mailbox, a), "UNSUBSCRIBE mailbox")
	case 7:
		pl, ok := cmd.Payload.(*Rename)
		vsymAssert(ok && c10MailboxEq(pl.From, a) && c10MailboxEq(pl.To, b), "RENAME mailboxes")
	case 8:
		pl, ok := cmd.Payload.(*Copy)
		vsymAssert(ok && c10MailboxEq(pl.Mailbox, a) && c10SameSeqSet(pl.SeqSet, set), "COPY set and mailbox")
	case 9:
		pl, ok := cmd.Payload.(*Move)
		vsymAssert(ok && c10MailboxEq(pl.Mailbox, a) && c10SameSeqSet(pl.SeqSet, set), "MOVE set and mailbox")
	case 10:
		pl, ok := cmd.Payload.(*Status)
		vsymAssert(ok && c10MailboxEq(pl.Mailbox, a), "STATUS mailbox")
		if ok {
			vsymAssert(len(pl.Attributes) == 2 && pl.Attributes[0] == StatusAttributeMessages && pl.Attributes[1] == StatusAttributeUIDNext, "STATUS items in order")
		}
	}
}
