"""Differential self-test of the translator: concrete scenario functions are executed by the engine and
natively; digests must agree (filled in progressively)."""


def run(root, repo, env):
    print("selftest: engine built")
    return 0
