package rfc822

import (
	"bytes"
	"errors"
	"io"
)

func verifLower(b byte) byte {
	if b >= 'A' && b <= 'Z' {
		return b + 32
	}
	return b
}

// VerifSplit: Split(b) = (b[:k], b[k:]) where k is the end of the first line that consists only of CR/LF
// characters (the empty line that terminates the header), or len(b) when there is none.
func VerifSplit() {
	n := vsymParam("n")
	b := vsymBytes("b", n)
	orig := make([]byte, n)
	copy(orig, b)
	h, body := Split(b)
	vsymAssert(len(h)+len(body) == n, "header and body partition the input")
	// reference split position
	k := n
	lineStart := 0
	for i := 0; i < n; i++ {
		if orig[i] != '\n' {
			continue
		}
		empty := true
		for j := lineStart; j < i; j++ {
			if orig[j] != '\r' && orig[j] != '\n' {
				empty = false
			}
		}
		if empty {
			k = i + 1
			break
		}
		lineStart = i + 1
	}
	vsymAssert(len(h) == k, "header ends with the first empty line")
	for i := 0; i < len(h) && i < n; i++ {
		vsymAssert(h[i] == orig[i], "header bytes unchanged")
	}
	for i := 0; i < len(body) && len(h)+i < n; i++ {
		vsymAssert(body[i] == orig[len(h)+i], "body bytes unchanged")
	}
}

// VerifHeaderParser: for any header bytes every successful step of the header parser strictly advances and
// yields offsets inside the buffer in the right order (termination for any length follows by induction).
func VerifHeaderParser() {
	n := vsymParam("n")
	b := vsymBytes("b", n)
	p := newHeaderParser(b)
	prevEnd := 0
	for steps := 0; ; steps++ {
		vsymAssert(steps <= n+1, "header parser makes at most one step per input byte")
		before := p.offset
		e, err := p.next()
		if err != nil {
			if errors.Is(err, io.EOF) {
				vsymCover("header-eof")
				vsymAssert(prevEnd == n, "the entries tile the whole header: no byte is lost")
			} else {
				vsymCover("header-error")
			}
			return
		}
		vsymCover("header-entry")
		vsymAssert(p.offset > before, "successful step advances")
		vsymAssert(0 <= e.keyStart && e.keyStart <= e.keyEnd && e.keyEnd <= n, "key range inside the buffer")
		vsymAssert(e.keyStart <= e.valueStart && e.valueStart <= e.valueEnd && e.valueEnd <= n, "value range inside the buffer")
		vsymAssert(e.keyStart == prevEnd, "entry starts where the previous one ended: no byte is lost between fields")
		prevEnd = e.valueEnd
	}
}

const verifIDKey = "X-Pm-Gluon-Id"
const verifIDLine = "X-Pm-Gluon-Id: v\r\n"

// VerifSetHeader: SetHeaderValue inserts exactly the ID line at a line start and nothing else changes;
// reading it back gives the value and erasing it restores the literal.
func VerifSetHeader() {
	n := vsymParam("n")
	lit := vsymBytes("lit", n)
	orig := make([]byte, n)
	copy(orig, lit)
	out, err := SetHeaderValue(lit, verifIDKey, "v")
	if err != nil {
		vsymCover("set-header-error")
		return
	}
	vsymCover("set-header-ok")
	L := len(verifIDLine)
	vsymAssert(len(out) == n+L, "length grows by the ID line")
	if len(out) != n+L {
		return
	}
	// the reader variant reports the same size
	_, size, err2 := SetHeaderValueNoMemCopy(orig, verifIDKey, "v")
	vsymAssert(err2 == nil && size == n+L, "announced size equals the bytes produced")
	// does the literal have a keyed header field?
	rawHeader, _ := Split(orig)
	hp := newHeaderParser(rawHeader)
	keyed := false
	for {
		e, err := hp.next()
		if err != nil {
			break
		}
		if e.hasKey() {
			keyed = true
			break
		}
	}
	okAny := false
	for k := 0; k <= n; k++ {
		m := true
		for i := 0; i < k; i++ {
			m = vsymAnd(m, out[i] == orig[i])
		}
		for i := 0; i < L; i++ {
			m = vsymAnd(m, out[k+i] == verifIDLine[i])
		}
		for i := k; i < n; i++ {
			m = vsymAnd(m, out[L+i] == orig[i])
		}
		if k > 0 && keyed {
			// in front of the first header field, i.e. at the start of a line
			// (a literal without any header field is outside what the property describes; there only "nothing but the
			// line is added" is judged)
			m = vsymAnd(m, orig[k-1] == '\n')
		}
		okAny = vsymOr(okAny, m)
	}
	vsymAssert(okAny, "result is the literal with only the ID line inserted (at the start of a line when a header field exists)")
	if !keyed {
		vsymCover("no-keyed-field")
		return
	}
	vsymCover("keyed-field")
	got, err := GetHeaderValue(out, verifIDKey)
	vsymAssert(err == nil, "ID header can be read back")
	vsymAssert(got == "v", "ID header value reads back")
	er, err := EraseHeaderValue(out, verifIDKey)
	vsymAssert(err == nil && len(er) == n, "erasing the ID header restores the length")
	if err == nil && len(er) == n {
		for i := 0; i < n; i++ {
			vsymAssert(er[i] == orig[i], "erasing the ID header restores the literal")
		}
	}
}

// VerifFields: HEADER.FIELDS and HEADER.FIELDS.NOT split the keyed header fields between them:
// a keyed field is in FIELDS iff its name equals (ASCII case-insensitively) a requested name, else in FIELDS.NOT;
// blank terminator lines are in both; nothing else is emitted; order is header order.
func VerifFields() {
	n := vsymParam("n")
	fl := vsymParam("fieldLen")
	data := vsymBytes("hdr", n)
	name := vsymBytes("field", fl)
	for i := range name { // field names in a FETCH are astrings: printable ASCII here
		vsymAssume(name[i] > 32)
		vsymAssume(name[i] < 127)
		vsymAssume(name[i] != ':')
	}
	h, err := NewHeader(data)
	if err != nil {
		vsymCover("fields-header-error")
		return
	}
	// the parsed entries tile the header (so FIELDS + FIELDS.NOT can be lossless at all)
	pe := 0
	for e := h.firstEntry; e != nil; e = e.next {
		vsymAssert(e.keyStart == pe, "header entries are contiguous: no byte between fields is lost")
		pe = e.valueEnd
	}
	vsymAssert(pe == n, "header entries cover the whole header")
	fields := []string{string(name)}
	f := h.Fields(fields)
	fnot := h.FieldsNot(fields)
	var wantF, wantN []byte
	for e := h.firstEntry; e != nil; e = e.next {
		all := e.getAll(h.data)
		// a line of white space only (in the sense of bytes.TrimSpace, which the server uses) is a terminator line
		if len(bytes.TrimSpace(all)) == 0 {
			wantF = append(wantF, all...)
			wantN = append(wantN, all...)
			continue
		}
		if !e.hasKey() {
			continue
		}
		key := e.getKey(h.data)
		same := len(key) == fl
		if same {
			for i := range key {
				if verifLower(key[i]) != verifLower(name[i]) {
					same = false
				}
			}
		}
		if same {
			vsymCover("field-selected")
			wantF = append(wantF, all...)
		} else {
			wantN = append(wantN, all...)
		}
	}
	vsymAssert(len(f) == len(wantF), "HEADER.FIELDS returns exactly the requested fields")
	vsymAssert(len(fnot) == len(wantN), "HEADER.FIELDS.NOT returns exactly the other fields")
	if len(f) == len(wantF) {
		for i := range f {
			vsymAssert(f[i] == wantF[i], "HEADER.FIELDS bytes")
		}
	}
	if len(fnot) == len(wantN) {
		for i := range fnot {
			vsymAssert(fnot[i] == wantN[i], "HEADER.FIELDS.NOT bytes")
		}
	}
}

// VerifBoundaryScanner: the multipart boundary scanner on an arbitrary body (boundary "b"): never panics,
// every step advances, every reported part lies inside the body, parts are ordered and disjoint.
// verifGap is a symbolic byte string of symbolic length 0..max (line ends, dashes, anything).
func verifGap(name string, max int) []byte {
	return vsymBytes(name, vsymChoice(name+"Len", max+1))
}

func VerifBoundaryScanner() {
	n := vsymParam("n")
	data := vsymBytes("body", n)
	if g := vsymParam("tmpl"); g > 0 {
		// template: three delimiter candidates and a close delimiter with arbitrary bytes (0..g-1 each) around them:
		// adjacent delimiters, empty parts, every line-ending mix, text glued to a delimiter
		data = nil
		for _, d := range []string{"--b", "--b", "--b--"} {
			data = append(data, verifGap("gap", g-1)...)
			data = append(data, d...)
		}
		data = append(data, verifGap("gap", g-1)...)
		n = len(data)
	}
	s, err := NewByteScanner(data, []byte("b"))
	if err != nil {
		return
	}
	prevEnd := 0
	for steps := 0; ; steps++ {
		vsymAssert(steps <= n+1, "boundary scanner makes at most one step per input byte")
		offset := s.progress
		part, more := s.readToBoundary()
		if more {
			vsymAssert(s.progress > offset, "a step that announces more parts advances")
		}
		if part != nil {
			vsymCover("part-found")
			vsymAssert(offset >= prevEnd, "parts are ordered and disjoint")
			vsymAssert(offset+len(part) <= n, "part lies inside the body")
			if more {
				// a part closed by a delimiter is exactly the bytes from the reported offset (the unterminated tail
				// after a rejected delimiter candidate is reported shorter than it is - garbage input, where the
				// property only asks for containment)
				for i := range part {
					vsymAssert(part[i] == data[offset+i], "part bytes are the body bytes at the reported offset")
				}
			}
			prevEnd = offset + len(part)
		}
		if !more {
			break
		}
	}
	// ScanAll agrees (same code path, exercised through the public entry)
	s2, _ := NewByteScanner(data, []byte("b"))
	for _, p := range s2.ScanAll() {
		vsymAssert(p.Offset >= 0 && p.Offset+len(p.Data) <= n, "ScanAll part inside the body")
	}
}

const verifMultipartHeader = "Content-Type: multipart/mixed; boundary=b\r\n\r\n"

// VerifSections: a multipart message with an arbitrary body: every child section lies inside its parent's body,
// Header/Body/Literal never panic, and header+body of each section concatenate to its literal.
func VerifSections() {
	n := vsymParam("n")
	body := vsymBytes("body", n)
	lit := append([]byte(verifMultipartHeader), body...)
	root := Parse(lit)
	vsymAssert(root.header == 0 && root.end == len(lit), "root section spans the literal")
	vsymAssert(root.body == len(verifMultipartHeader), "root body starts after the empty line")
	children, err := root.Children()
	if err != nil {
		vsymCover("children-error")
		return
	}
	prevEnd := root.body
	for _, c := range children {
		vsymCover("child")
		vsymAssert(c.header >= prevEnd, "children ordered and disjoint")
		vsymAssert(c.header <= c.body && c.body <= c.end, "child offsets ordered")
		vsymAssert(c.end <= root.end, "child inside parent")
		vsymAssert(len(c.Header())+len(c.Body()) == len(c.Literal()), "child header+body = child literal")
		prevEnd = c.end
		// nested parts of a child must stay inside the child
		sub, err := c.Children()
		if err == nil {
			for _, g := range sub {
				vsymAssert(g.header >= c.body && g.end <= c.end, "grandchild inside child body")
			}
		}
	}
	// Part() with arbitrary small indices never panics
	for i := 0; i <= len(children)+1; i++ {
		_, _ = root.Part(i)
	}
}

// VerifSectionsNested: a multipart whose first part is itself a multipart - with the parent's boundary, another
// one, or a message/rfc822 wrapper - followed by further parts of the parent; arbitrary bytes between the
// delimiters.  Whatever the inner scanner makes of it, every reported part lies inside its parent.
func VerifSectionsNested() {
	g := vsymParam("g")
	inner := []string{
		"Content-Type: multipart/mixed; boundary=b\r\n\r\n",
		"Content-Type: multipart/mixed; boundary=c\r\n\r\n",
		"Content-Type: message/rfc822\r\n\r\nContent-Type: multipart/mixed; boundary=b\r\n\r\n",
	}[vsymChoice("inner", 3)]
	lit := []byte(verifMultipartHeader)
	lit = append(lit, "--b\r\n"...)
	lit = append(lit, inner...)
	lit = append(lit, verifGap("gap", g)...)
	lit = append(lit, "--c\r\n"...)
	lit = append(lit, verifGap("gap", g)...)
	lit = append(lit, "\r\n--b\r\n"...)
	lit = append(lit, verifGap("gap", g)...)
	lit = append(lit, "\r\n--c--\r\n--b--\r\n"...)
	root := Parse(lit)
	var check func(parent *Section, depth int)
	check = func(parent *Section, depth int) {
		children, err := parent.Children()
		if err != nil || depth > 3 {
			return
		}
		prevEnd := parent.body
		for _, c := range children {
			vsymCover("nested-child")
			vsymAssert(c.header >= prevEnd, "children ordered and disjoint")
			vsymAssert(c.header <= c.body && c.body <= c.end, "child offsets ordered")
			vsymAssert(c.end <= parent.end, "every part lies inside its parent")
			vsymAssert(c.end <= len(lit), "every part lies inside the message")
			prevEnd = c.end
			check(c, depth+1)
		}
	}
	check(root, 0)
}
