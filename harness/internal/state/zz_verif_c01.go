package state

import (
	"context"

	"github.com/ProtonMail/gluon/db"
	"github.com/ProtonMail/gluon/imap"
	"github.com/ProtonMail/gluon/internal/response"
)

// ---- the client's mirror of the selected mailbox, built only from untagged responses ----

type verifMirEnt struct {
	uidKnown   bool
	uid        uint32
	flagsKnown bool
	flags      int
	// selfComputed: the client did not read these flags off a response, it computed them after a .SILENT store
	selfComputed bool
}

type verifMirror struct {
	ents []verifMirEnt
	// selfTag: when non-empty, a mismatch of self-computed flags belongs to this known-finding class
	selfTag string
}

func (m *verifMirror) apply(r response.Response) {
	d := response.VerifDecode(r)
	switch d.Kind {
	case 1: // EXISTS n
		n := int(d.N)
		vsymAssert(n >= len(m.ents), "EXISTS count shrank without EXPUNGE")
		for len(m.ents) < n {
			m.ents = append(m.ents, verifMirEnt{})
		}
	case 2: // EXPUNGE k
		k := int(d.N)
		vsymAssert(k >= 1, "EXPUNGE seq >= 1")
		vsymAssert(k <= len(m.ents), "EXPUNGE seq within announced count")
		if k >= 1 && k <= len(m.ents) {
			m.ents = append(m.ents[:k-1:k-1], m.ents[k:]...)
		}
	case 3: // FETCH k (FLAGS f [UID u])
		k := int(d.N)
		vsymAssert(k >= 1, "FETCH seq >= 1")
		vsymAssert(k <= len(m.ents), "FETCH seq within announced count")
		if k >= 1 && k <= len(m.ents) {
			e := &m.ents[k-1]
			if d.HasFlags {
				e.flagsKnown = true
				e.flags = verifFlagMask(d.Flags)
				e.selfComputed = false
			}
			if d.HasUID {
				if e.uidKnown {
					vsymAssert(e.uid == uint32(d.UID), "FETCH reports a different UID for a sequence number whose UID the client already knows")
				}
				e.uidKnown = true
				e.uid = uint32(d.UID)
			}
		}
	}
}

// probe compares the mirror with what the server would answer to FETCH 1:* (UID FLAGS) and then learns everything.
func (m *verifMirror) probe(snap *snapshot) {
	vsymAssert(len(m.ents) == snap.len(), "announced message count equals the count the server answers from")
	if len(m.ents) != snap.len() {
		return
	}
	prev := uint32(0)
	for i, msg := range snap.messages.msg {
		e := &m.ents[i]
		u := uint32(msg.UID)
		vsymAssert(u > prev, "UIDs strictly ascending in sequence order")
		prev = u
		if e.uidKnown {
			vsymAssert(e.uid == u, "sequence number still maps to the UID the client learned")
		}
		fm := verifFlagMask(msg.flags)
		if e.flagsKnown {
			if e.selfComputed && m.selfTag != "" {
				vsymKnown(m.selfTag, true)
				vsymAssert(e.flags == fm, "flags the client computed after a .SILENT store equal the flags the server answers")
				vsymKnownClear(m.selfTag)
			} else {
				vsymAssert(e.flags == fm, "flags the client learned equal the flags the server answers")
			}
		}
		e.uidKnown, e.uid, e.flagsKnown, e.flags, e.selfComputed = true, u, true, fm, false
		// index consistency
		got, ok := snap.messages.idx[msg.ID.InternalID]
		vsymAssert(ok && got == msg, "snapshot index consistent with list")
	}
}

var verifFlagChoices = []int{0, vfSeen, vfRecent, vfDeleted | vfSeen}

// VerifC01Pipeline: snapshot / responder / flush pipeline (C01 + C05).
// A state with a selected mailbox of n messages receives a history of k steps (responders queued by
// other parties or itself, flushes with and without permission to expunge, probes).  The client mirror is
// maintained only from the returned untagged responses.
func VerifC01Pipeline() {
	n := vsymParam("n")
	k := vsymParam("k")
	ctx := context.Background()
	user := &verifUser{db: &verifMiniDB{}, delimiter: "/"}
	st := verifNewState(user, 1)
	user.addState(st)
	mbox := &db.Mailbox{ID: 1, RemoteID: "mbox-1", Name: "INBOX", UIDValidity: 1}
	st.snap = newEmptySnapshot(st, mbox)

	// pool of message ids: n initial + 2 fresh
	pool := make([]db.MessageIDPair, n+2)
	for i := range pool {
		pool[i] = db.MessageIDPair{InternalID: imap.NewInternalMessageID(), RemoteID: imap.MessageID("r")}
	}
	inBox := make([]bool, n+2) // authoritative membership (after all queued responders)
	mirror := &verifMirror{}
	prev := uint32(0)
	for i := 0; i < n; i++ {
		u := vsymUint32("uid0")
		vsymAssume(u > prev)
		prev = u
		nfl := len(verifFlagChoices)
		if vsymParam("fam") == 3 {
			nfl = 2
		}
		fl := verifFlagChoices[vsymChoice("flags0", nfl)]
		if err := st.snap.appendMessage(pool[i], imap.UID(u), verifFlagSet(fl)); err != nil {
			panic(err)
		}
		inBox[i] = true
		mirror.ents = append(mirror.ents, verifMirEnt{})
	}
	mirror.probe(st.snap) // the client has fetched everything once (initial SELECT + FETCH)
	maxQueuedUID := prev
	expungeQueued := 0
	var usedUIDs []uint32
	// 0: all step kinds, 1: add/remove/flush, 2: flags/remove/flush,
	// 3: plain flag changes and removals only (one NOOP at the end: what response.Merge makes of one long stream)
	fam := vsymParam("fam")
	kinds := [][]int{{0, 1, 2, 3}, {0, 1, 3}, {2, 1, 3}, {2, 1}}[fam]
	mailbox := newMailbox(mbox, st, st.snap)

	tx := &verifMiniTx{d: user.db.(*verifMiniDB)}
	for step := 0; step < k; step++ {
		switch kinds[vsymChoice("step", len(kinds))] {
		case 0: // a message is added (by this session: self, or by another party)
			which := vsymChoice("addWhich", len(pool))
			if inBox[which] {
				vsymAssume(false)
			}
			self := vsymChoice("addSelf", 2) == 1
			u := vsymUint32("uidNew")
			vsymAssume(u > prev) // above the initial content
			for _, used := range usedUIDs {
				vsymAssume(used != u)
			}
			usedUIDs = append(usedUIDs, u)
			if self {
				vsymAssume(u > maxQueuedUID)
			} else {
				// another session's insert may be delivered late: any unused UID above the initial content
				vsymKnown("F9", u < maxQueuedUID)
			}
			if u > maxQueuedUID {
				maxQueuedUID = u
			}
			fl := verifFlagChoices[vsymChoice("flagsNew", 2)] | vfRecent
			var origin *State
			if self {
				origin = st
			}
			upd := newExistsStateUpdateWithExists(mbox.ID, []*exists{newExists(pool[which], imap.UID(u), verifFlagSet(fl))}, origin)
			if upd.Filter(st) {
				if err := upd.Apply(ctx, tx, st); err != nil {
					panic(err)
				}
			}
			inBox[which] = true
			vsymCover("exists-queued")
		case 1: // a message is removed
			which := vsymChoice("delWhich", len(pool))
			if !inBox[which] {
				vsymAssume(false)
			}
			if err := st.PushResponder(ctx, tx, NewExpunge(pool[which].InternalID)); err != nil {
				panic(err)
			}
			inBox[which] = false
			expungeQueued++
			vsymCover("expunge-queued")
		case 2: // flags of a message change
			var which, op int
			var asUID, other bool
			if fam == 3 {
				which = vsymChoice("fetchWhich", n)
				op = []int{FetchFlagOpAdd, FetchFlagOpSet}[vsymChoice("fetchOp", 2)]
			} else {
				which = vsymChoice("fetchWhich", len(pool))
				op = vsymChoice("fetchOp", 3)
				asUID = vsymBool("fetchUID")
				other = vsymBool("fetchOtherMbox")
			}
			fl := []int{vfSeen, vfDeleted}[vsymChoice("fetchFlags", 2)]
			if err := st.PushResponder(ctx, tx, NewFetch(pool[which].InternalID, verifFlagSet(fl), asUID, false, other, op)); err != nil {
				panic(err)
			}
			vsymCover("fetch-queued")
		case 3: // end of a command: flush, then the client may probe
			permit := vsymBool("permitExpunge")
			before := st.snap.len()
			held := st.ExpungeIssuedVerif()
			issued := mailbox.ExpungeIssued() // what handleFetch/handleStore/handleSearch put into their OK
			res, err := st.flushResponses(ctx, permit)
			if err != nil {
				vsymCover("flush-error")
				vsymAssert(false, "flush failed")
				return
			}
			for _, r := range res {
				if !permit {
					vsymAssert(response.VerifDecode(r).Kind != 2, "no EXPUNGE during a command that does not permit it")
				}
				mirror.apply(r)
			}
			if !permit {
				vsymAssert(st.snap.len() >= before, "view does not shrink during FETCH/STORE/SEARCH")
				if held {
					vsymCover("expunge-held-back")
				}
				vsymAssert(!st.ExpungeIssuedVerif() || issued, "a FETCH/STORE/SEARCH that holds back a removal says [EXPUNGEISSUED]")
			} else {
				vsymAssert(len(st.res) == 0, "a flush that permits expunge empties the queue")
			}
			mirror.probe(st.snap)
		}
	}
	// quiescence: NOOP
	res, err := st.flushResponses(ctx, true)
	vsymAssert(err == nil, "final flush succeeds")
	if err != nil {
		return
	}
	for _, r := range res {
		mirror.apply(r)
	}
	mirror.probe(st.snap)
	// the view equals the authoritative membership
	cnt := 0
	for i := range pool {
		if inBox[i] {
			cnt++
			vsymAssert(st.snap.hasMessage(pool[i].InternalID), "message present in the mailbox is visible after NOOP")
		} else {
			vsymAssert(!st.snap.hasMessage(pool[i].InternalID), "removed message is not visible after NOOP")
		}
	}
	vsymAssert(st.snap.len() == cnt, "view size equals mailbox size after NOOP")
}

// ExpungeIssuedVerif reports whether an expunge responder is queued (what Mailbox.ExpungeIssued looks at).
func (state *State) ExpungeIssuedVerif() bool {
	for _, r := range state.res {
		if _, ok := r.(*expunge); ok {
			return true
		}
	}
	return false
}
