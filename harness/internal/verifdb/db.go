// Package verifdb is an in-memory relational model of gluon's message index (db.Client / db.Transaction),
// used as the stub behind the state and backend layers in verification harnesses.  Every operation states
// the SQL behaviour it abstracts (internal/db_impl/sqlite3/{read,write}_ops.go, v1/mailbox.go).
// It is injected into the build by overlay; it is not part of gluon.
package verifdb

import (
	"context"
	"errors"
	"sort"
	"strings"
	"time"

	"github.com/ProtonMail/gluon/db"
	"github.com/ProtonMail/gluon/imap"
)

type MsgRow struct {
	ID            imap.InternalMessageID
	Remote        imap.MessageID
	Flags         []string // stored spellings, in insertion order (message_flags rows)
	MarkedDeleted bool
	Date          time.Time
	Size          int
	Body          string
	Structure     string
	Envelope      string
}

type BoxRow struct {
	UID     imap.UID
	Msg     imap.InternalMessageID
	Remote  imap.MessageID
	Deleted bool
	Recent  bool
}

type Box struct {
	ID          imap.InternalMailboxID
	Remote      imap.MailboxID
	Name        string
	Subscribed  bool
	UIDValidity imap.UID
	Rows        []BoxRow // ordered by UID
	LastUID     imap.UID // sqlite_sequence.seq (0 = table never used)
	Flags       []string
	PermFlags   []string
	Attrs       []string
}

type DB struct {
	Boxes       []*Box
	Msgs        []*MsgRow
	DeletedSubs []db.DeletedSubscription
	NextBoxID   imap.InternalMailboxID

	// ghost state
	Log          []string // effect log of the current (or last) write transaction
	Writes       int      // number of mutating operations executed in the current transaction
	Commits      int
	Rollbacks    int
	OnCommit     func(d *DB) // called after every committed write transaction (harness hook: effect log)
	FaultBudget  int         // number of operations that may still fail (symbolic choice per operation)
	CommitFaults bool        // the commit of a write transaction may fail too (counted against FaultBudget): nothing is persisted
	Faults       int
	InTx         bool
}

var ErrFault = errors.New("verifdb: injected database failure")
var ErrUnique = errors.New("verifdb: UNIQUE constraint failed")

func New() *DB { return &DB{NextBoxID: 1} }

// Clone returns a deep copy of the model (used for transaction rollback and for crash-point reconstruction).
func (d *DB) Clone() *DB {
	c := *d
	c.Boxes = make([]*Box, len(d.Boxes))
	for i, b := range d.Boxes {
		nb := *b
		nb.Rows = append([]BoxRow(nil), b.Rows...)
		nb.Flags = append([]string(nil), b.Flags...)
		nb.PermFlags = append([]string(nil), b.PermFlags...)
		nb.Attrs = append([]string(nil), b.Attrs...)
		c.Boxes[i] = &nb
	}
	c.Msgs = make([]*MsgRow, len(d.Msgs))
	for i, m := range d.Msgs {
		nm := *m
		nm.Flags = append([]string(nil), m.Flags...)
		c.Msgs[i] = &nm
	}
	c.DeletedSubs = append([]db.DeletedSubscription(nil), d.DeletedSubs...)
	c.Log = nil
	return &c
}

// restore puts the saved content back, preserving the identity of Box / MsgRow objects that existed before
// (harnesses keep pointers to them).
func (d *DB) restore(s *DB) {
	liveBoxes := map[imap.InternalMailboxID]*Box{}
	for _, b := range d.Boxes {
		liveBoxes[b.ID] = b
	}
	boxes := make([]*Box, len(s.Boxes))
	for i, sb := range s.Boxes {
		if lb, ok := liveBoxes[sb.ID]; ok {
			*lb = *sb
			boxes[i] = lb
		} else {
			boxes[i] = sb
		}
	}
	liveMsgs := map[imap.InternalMessageID]*MsgRow{}
	for _, m := range d.Msgs {
		liveMsgs[m.ID] = m
	}
	msgs := make([]*MsgRow, len(s.Msgs))
	for i, sm := range s.Msgs {
		if lm, ok := liveMsgs[sm.ID]; ok {
			*lm = *sm
			msgs[i] = lm
		} else {
			msgs[i] = sm
		}
	}
	d.Boxes, d.Msgs, d.DeletedSubs, d.NextBoxID = boxes, msgs, s.DeletedSubs, s.NextBoxID
}

// ---- db.Client ----

func (d *DB) Init(ctx context.Context, generator imap.UIDValidityGenerator) error { return nil }
func (d *DB) Close() error                                                        { return nil }

func (d *DB) Read(ctx context.Context, op func(context.Context, db.ReadOnly) error) error {
	return op(ctx, &Tx{D: d})
}

// Write runs op on the model; if op fails the model is restored (contract of sqlite3 wrapTx: rollback on error).
func (d *DB) Write(ctx context.Context, op func(context.Context, db.Transaction) error) error {
	if d.InTx {
		// nested write on the same connection: the real client would dead-lock on its write lock
		panic("verifdb: nested Write (dead-lock on the real client)")
	}
	saved := d.Clone()
	d.InTx = true
	d.Log = nil
	d.Writes = 0
	err := op(ctx, &Tx{D: d})
	d.InTx = false
	if err != nil {
		d.restore(saved)
		d.Rollbacks++
		return err
	}
	if d.CommitFaults && d.Writes > 0 && d.FaultBudget > 0 && vsymBool("commitFault") {
		// tx.Commit() fails: wrapTx returns the error, SQLite keeps nothing of the transaction
		d.FaultBudget--
		d.Faults++
		d.restore(saved)
		d.Rollbacks++
		return ErrFault
	}
	d.Commits++
	if d.Writes > 0 && d.OnCommit != nil {
		d.OnCommit(d)
	}
	return nil
}

// ---- helpers ----

func (d *DB) BoxByID(id imap.InternalMailboxID) *Box {
	for _, b := range d.Boxes {
		if b.ID == id {
			return b
		}
	}
	return nil
}

func (d *DB) BoxByRemote(id imap.MailboxID) *Box {
	for _, b := range d.Boxes {
		if b.Remote == id {
			return b
		}
	}
	return nil
}

func (d *DB) BoxByName(name string) *Box {
	for _, b := range d.Boxes {
		if b.Name == name {
			return b
		}
	}
	return nil
}

func (d *DB) Msg(id imap.InternalMessageID) *MsgRow {
	for _, m := range d.Msgs {
		if m.ID == id {
			return m
		}
	}
	return nil
}

func (d *DB) MsgByRemote(id imap.MessageID) *MsgRow {
	for _, m := range d.Msgs {
		if m.Remote == id {
			return m
		}
	}
	return nil
}

func (b *Box) Row(id imap.InternalMessageID) *BoxRow {
	for i := range b.Rows {
		if b.Rows[i].Msg == id {
			return &b.Rows[i]
		}
	}
	return nil
}

func (d *DB) flagsString(id imap.InternalMessageID) string {
	m := d.Msg(id)
	if m == nil {
		return ""
	}
	return strings.Join(m.Flags, ",")
}

// AddBox / AddMsg / AddRow are construction helpers for harnesses (no logging, no faults).
func (d *DB) AddBox(name string, remote imap.MailboxID, uidValidity imap.UID) *Box {
	b := &Box{ID: d.NextBoxID, Remote: remote, Name: name, Subscribed: true, UIDValidity: uidValidity}
	d.NextBoxID++
	d.Boxes = append(d.Boxes, b)
	return b
}

func (d *DB) AddMsg(id imap.InternalMessageID, remote imap.MessageID, flags ...string) *MsgRow {
	m := &MsgRow{ID: id, Remote: remote, Flags: flags}
	d.Msgs = append(d.Msgs, m)
	return m
}

func (b *Box) AddRow(id imap.InternalMessageID, remote imap.MessageID, uid imap.UID, deleted, recent bool) {
	b.Rows = append(b.Rows, BoxRow{UID: uid, Msg: id, Remote: remote, Deleted: deleted, Recent: recent})
	if uid > b.LastUID {
		b.LastUID = uid
	}
}

func sortedIDs(ids []imap.InternalMessageID) []imap.InternalMessageID {
	out := append([]imap.InternalMessageID(nil), ids...)
	sort.Slice(out, func(i, j int) bool { return out[i].String() < out[j].String() })
	return out
}
