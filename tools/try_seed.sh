#!/bin/bash
# usage: tools/try_seed.sh <seed-dir> <property> [extra check args]   -- applies the seed patch to /repo, runs the check, reverts.
set -u
seed=$(realpath "$1"); prop=$2; shift 2
cd /repo || exit 2
if ! git diff --quiet; then echo "/repo has uncommitted changes"; exit 2; fi
git apply "$seed/patch.diff" || { echo "patch does not apply"; exit 2; }
# the check rewrites evidence/<prop>.json; a run on a seeded tree must not replace the evidence of the unchanged tree
ev=/verif/evidence/$prop.json; bak=$(mktemp); [ -f "$ev" ] && cp "$ev" "$bak"
cd /verif && ./check "$prop" "$@" > /tmp/try_seed.out 2>&1; rc=$?
[ -s "$bak" ] && cp "$bak" "$ev"; rm -f "$bak"
git -C /repo checkout -- . ; git -C /repo clean -fdq -- . 2>/dev/null
grep -E "^(VIOLATION|KNOWN-FINDING|ENGINE-MISMATCH|INCONCLUSIVE|C[0-9]+ tier)" /tmp/try_seed.out | cut -c1-400 | head -12
echo "exit=$rc"
