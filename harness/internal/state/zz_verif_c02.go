package state

import (
	"context"

	"github.com/ProtonMail/gluon/db"
	"github.com/ProtonMail/gluon/imap"
	"github.com/ProtonMail/gluon/limits"
)

// VerifC02Converge: an observing session O and an acting session X have mailbox A selected; the connector may
// change A as well.  Producing a change, delivering the resulting update to O and O's flushes are separate events,
// so every placement of O's flushes between the other parties' steps is covered (within k events).
// At quiescence (everything delivered, NOOP) O's view must equal what a freshly opened session sees.
func VerifC02Converge() {
	n := vsymParam("n")
	k := vsymParam("k")
	fam := vsymParam("fam")
	w := verifNewWorld(limits.DefaultLimits())
	a := w.db.AddBox("A", "mb-A", 2)
	b := w.db.AddBox("B", "mb-B", 3)
	pool := make([]db.MessageIDPair, n+1)
	for i := 0; i < n; i++ {
		fl := [][]string{{}, {imap.FlagSeen}}[vsymChoice("flags0", 2)]
		pool[i] = w.addMessage(a, imap.UID(i+1), fl...)
	}
	pool[n] = w.addMessage(b, 1) // a message that can be copied into A later
	if fam == 4 {
		pool = append(pool, w.addMessage(b, 2)) // a second one: somebody else's addition and O's own can be in flight together
	}

	obs := w.newState(1)
	act := w.newState(2)
	for _, st := range []*State{obs, act} {
		if err := st.Select(ctxFor(st), "A", func(m *Mailbox) error { return nil }); err != nil {
			panic(err)
		}
	}
	mboxA := db.MailboxIDPair{InternalID: a.ID, RemoteID: a.Remote}
	actCtx := ctxFor(act)
	plain := context.Background()

	inA := func(i int) bool { return a.Row(pool[i].InternalID) != nil }
	kinds := [][]int{{0, 1, 2, 3, 4, 5}, {0, 1, 4, 5}, {2, 3, 4, 5}, {0, 1, 2, 4, 5}, {0, 6, 4, 5}}[fam]
	for step := 0; step < k; step++ {
		switch kinds[vsymChoice("event", len(kinds))] {
		case 0: // X (or the connector) puts a message into A
			i := vsymChoice("addWhich", len(pool))
			if inA(i) {
				vsymAssume(false)
			}
			byConn := vsymChoice("addByConnector", 2) == 1
			if byConn {
				err := w.db.Write(plain, func(ctx context.Context, tx db.Transaction) error {
					_, update, err := AddMessagesToMailbox(ctx, tx, a.ID, []db.MessageIDPair{pool[i]}, nil, w.lim)
					if err != nil {
						return err
					}
					return w.user.QueueOrApplyStateUpdate(ctx, tx, update)
				})
				vsymAssert(err == nil, "connector add succeeds")
			} else {
				err := stateDBWrite(actCtx, act, func(ctx context.Context, tx db.Transaction) ([]Update, error) {
					updates, _, err := act.actionAddMessagesToMailbox(ctx, tx, []db.MessageIDPair{pool[i]}, mboxA, true)
					return updates, err
				})
				vsymAssert(err == nil, "COPY by the other session succeeds")
			}
			vsymCover("message-added")
		case 1: // X (or the connector) removes a message from A
			i := vsymChoice("delWhich", len(pool))
			if !inA(i) {
				vsymAssume(false)
			}
			byConn := vsymChoice("delByConnector", 2) == 1
			if byConn {
				err := w.db.Write(plain, func(ctx context.Context, tx db.Transaction) error {
					updates, err := RemoveMessagesFromMailbox(ctx, tx, a.ID, []imap.InternalMessageID{pool[i].InternalID})
					if err != nil {
						return err
					}
					return w.user.QueueOrApplyStateUpdate(ctx, tx, updates...)
				})
				vsymAssert(err == nil, "connector removal succeeds")
			} else {
				err := stateDBWrite(actCtx, act, func(ctx context.Context, tx db.Transaction) ([]Update, error) {
					return act.actionRemoveMessagesFromMailbox(ctx, tx, []db.MessageIDPair{pool[i]}, mboxA)
				})
				vsymAssert(err == nil, "EXPUNGE by the other session succeeds")
			}
			vsymCover("message-removed")
		case 2: // X stores flags
			i := vsymChoice("storeWhich", len(pool))
			if !inA(i) {
				vsymAssume(false)
			}
			fl := imap.NewFlagSet([]string{imap.FlagSeen, imap.FlagFlagged}[vsymChoice("storeFlag", 2)])
			op := vsymChoice("storeOp", 3)
			err := stateDBWrite(actCtx, act, func(ctx context.Context, tx db.Transaction) ([]Update, error) {
				ids := []imap.InternalMessageID{pool[i].InternalID}
				switch op {
				case 0:
					return act.applyMessageFlagsAdded(ctx, tx, ids, fl)
				case 1:
					return act.applyMessageFlagsRemoved(ctx, tx, ids, fl)
				}
				return act.applyMessageFlagsSet(ctx, tx, ids, fl)
			})
			vsymAssert(err == nil, "STORE by the other session succeeds")
			vsymCover("flags-stored")
		case 3: // the connector changes a flag (as applyMessageFlagsUpdated does: index first, then the state update)
			i := vsymChoice("connFlagWhich", len(pool))
			add := vsymChoice("connFlagAdd", 2) == 1
			err := w.db.Write(plain, func(ctx context.Context, tx db.Transaction) error {
				ids := []imap.InternalMessageID{pool[i].InternalID}
				var u Update
				if add {
					if err := tx.AddFlagToMessages(ctx, ids, imap.FlagFlagged); err != nil {
						return err
					}
					u = NewRemoteAddMessageFlagsStateUpdate(pool[i].InternalID, imap.FlagFlagged)
				} else {
					if err := tx.RemoveFlagFromMessages(ctx, ids, imap.FlagFlagged); err != nil {
						return err
					}
					u = NewRemoteRemoveMessageFlagsStateUpdate(pool[i].InternalID, imap.FlagFlagged)
				}
				return w.user.QueueOrApplyStateUpdate(ctx, tx, u)
			})
			vsymAssert(err == nil, "connector flag update succeeds")
			vsymCover("connector-flag")
		case 6: // O itself puts a message into A (its own COPY / MOVE into the selected mailbox): applied to its view at once
			i := vsymChoice("ownAddWhich", len(pool))
			if inA(i) {
				vsymAssume(false)
			}
			err := stateDBWrite(ctxFor(obs), obs, func(ctx context.Context, tx db.Transaction) ([]Update, error) {
				updates, _, err := obs.actionAddMessagesToMailbox(ctx, tx, []db.MessageIDPair{pool[i]}, mboxA, true)
				return updates, err
			})
			vsymAssert(err == nil, "the observer's own COPY succeeds")
			vsymCover("own-add")
		case 4: // the next pending update reaches O
			if len(w.user.pending[0]) == 0 {
				vsymAssume(false)
			}
			u := w.user.pending[0][0]
			w.user.pending[0] = w.user.pending[0][1:]
			vsymAssert(obs.ApplyUpdate(plain, u) == nil, "update applies")
			vsymCover("update-delivered")
		case 5: // O finishes a command
			_, err := obs.flushResponses(ctxFor(obs), vsymBool("permitExpunge"))
			vsymAssert(err == nil, "flush succeeds")
		}
	}
	// quiescence: everything is delivered, O issues NOOP
	w.deliverAll(0)
	_, err := obs.flushResponses(ctxFor(obs), true)
	vsymAssert(err == nil, "NOOP succeeds")
	// what a newly opened session sees
	fresh := w.newState(3)
	if err := fresh.Select(ctxFor(fresh), "A", func(m *Mailbox) error { return nil }); err != nil {
		panic(err)
	}
	want := fresh.snap.messages.msg
	got := obs.snap.messages.msg
	vsymAssert(len(got) == len(want), "after NOOP the session sees exactly the messages of the mailbox")
	if len(got) != len(want) {
		return
	}
	for i := range want {
		vsymAssert(got[i].ID.InternalID == want[i].ID.InternalID, "same messages in the same order")
		vsymAssert(got[i].UID == want[i].UID, "same UIDs")
		vsymAssert(verifFlagMask(got[i].flags)&^vfRecent == verifFlagMask(want[i].flags)&^vfRecent, "same flags (ignoring \\Recent)")
	}
}
