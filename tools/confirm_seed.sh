#!/bin/bash
# usage: tools/confirm_seed.sh <seed-dir> <pkgdir-of-demo> [test-run-regex]
# Confirms in a scratch worktree: patch applies + builds, suite passes with the patch, demo fails with / passes without.
set -u
seed=$(realpath "$1"); pkg=$2; run=${3:-.}
export GOFLAGS=-mod=mod GOPROXY=off GOSUMDB=off GOTOOLCHAIN=local
wt=/tmp/confirm_$$
git -C /repo worktree add -q "$wt" HEAD || exit 2
cd "$wt"
res="seed=$seed"
cp "$seed/demo_test.go" "$pkg/zz_seed_demo_test.go"
if go test -count=1 -timeout 300s -run "$run" ./$pkg/ >/tmp/confirm_clean.log 2>&1; then res="$res demo_without_patch=PASS"; else res="$res demo_without_patch=FAIL"; fi
rm "$pkg/zz_seed_demo_test.go"
if git apply "$seed/patch.diff"; then res="$res apply=ok"; else res="$res apply=FAILED"; fi
if go build ./... >/tmp/confirm_build.log 2>&1; then res="$res build=ok"; else res="$res build=FAILED"; fi
go test -count=1 -timeout 900s ./... >/tmp/confirm_suite.log 2>&1
fails=$(grep -E "^--- FAIL" /tmp/confirm_suite.log | sort -u | tr '\n' ' ')
if grep -q "^FAIL" /tmp/confirm_suite.log; then
  # re-run once to discount the known flaky tests
  go test -count=1 -timeout 900s ./... >/tmp/confirm_suite2.log 2>&1
  if grep -q "^FAIL" /tmp/confirm_suite2.log; then res="$res suite_with_patch=FAIL($fails | $(grep -E '^--- FAIL' /tmp/confirm_suite2.log | sort -u | tr '\n' ' '))"; else res="$res suite_with_patch=PASS(after-rerun; first: $fails)"; fi
else res="$res suite_with_patch=PASS"; fi
cp "$seed/demo_test.go" "$pkg/zz_seed_demo_test.go"
if go test -count=1 -timeout 300s -run "$run" ./$pkg/ >/tmp/confirm_patched.log 2>&1; then res="$res demo_with_patch=PASS"; else res="$res demo_with_patch=FAIL"; fi
cd /; git -C /repo worktree remove --force "$wt"
echo "$res"
