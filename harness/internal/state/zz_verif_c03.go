package state

import (
	"context"
	"strings"

	"github.com/ProtonMail/gluon/db"
	"github.com/ProtonMail/gluon/imap"
	"github.com/ProtonMail/gluon/imap/command"
	"github.com/ProtonMail/gluon/internal/verifdb"
	"github.com/ProtonMail/gluon/limits"
)

// flag universe of the C03 harness (per message): bit 0 \Seen, bit 1 \Flagged, bit 2 "custom"; \Deleted is per mailbox row.
const (
	c3Seen    = 1
	c3Flagged = 2
	c3Custom  = 4
	c3Deleted = 8
)

func c3Spell(mask int, lower bool) []string {
	var out []string
	add := func(s string) {
		if lower {
			s = strings.ToLower(s)
		}
		out = append(out, s)
	}
	if mask&c3Seen != 0 {
		add(imap.FlagSeen)
	}
	if mask&c3Flagged != 0 {
		add(imap.FlagFlagged)
	}
	if mask&c3Custom != 0 {
		add("Custom")
	}
	if mask&c3Deleted != 0 {
		add(imap.FlagDeleted)
	}
	return out
}

func c3MaskOf(flags []string) int {
	m := 0
	for _, f := range flags {
		switch strings.ToLower(f) {
		case imap.FlagSeenLowerCase:
			m |= c3Seen
		case imap.FlagFlaggedLowerCase:
			m |= c3Flagged
		case "custom":
			m |= c3Custom
		case imap.FlagDeletedLowerCase:
			m |= c3Deleted
		default:
			m |= 64
		}
	}
	return m
}

type c3Row struct {
	msg     int // index into the message pool
	deleted bool
}

// VerifC03Commands: one STORE / EXPUNGE / COPY / MOVE command against the reference semantics
// (DESIGN appendix A.2), judged on the authoritative content of the relational model.
func VerifC03Commands() {
	nA := vsymParam("nA")
	w := verifNewWorld(limits.DefaultLimits())
	a := w.db.AddBox("A", "mb-A", 2)
	b := w.db.AddBox("B", "mb-B", 3)
	pool := make([]db.MessageIDPair, nA+1)
	flags := make([]int, nA+1) // reference: per message flag mask
	var refA, refB []c3Row
	lean := vsymParam("lean") == 1 // fewer initial spellings, STORE only (used with two shared messages and a peer)
	for i := 0; i < nA; i++ {
		nf := 3
		if lean {
			nf = 2
		}
		m := []int{0, c3Seen, c3Flagged | c3Custom}[vsymChoice("flags0", nf)]
		lower := !lean && vsymChoice("lowerSpelling", 2) == 1
		pool[i] = w.addMessage(a, imap.UID(i+1), c3Spell(m, lower)...)
		flags[i] = m
		del := vsymChoice("deleted0", 2) == 1
		a.Row(pool[i].InternalID).Deleted = del
		refA = append(refA, c3Row{i, del})
	}
	// B holds one message of its own and, optionally, also the first message / all messages of A
	pool[nA] = w.addMessage(b, 1)
	refB = append(refB, c3Row{nA, false})
	nShared := 0
	if nA == 1 || vsymParam("peer") == 0 { // sharing every message only matters to a peer session on B
		nShared = vsymChoice("shared", 2)
	} else {
		switch vsymChoice("shared", 3) {
		case 1:
			nShared = 1
		case 2:
			nShared = nA
		}
	}
	for i := 0; i < nShared; i++ {
		sharedDel := vsymChoice("sharedDeleted", 2) == 1
		b.AddRow(pool[i].InternalID, pool[i].RemoteID, imap.UID(2+i), sharedDel, false)
		refB = append(refB, c3Row{i, sharedDel})
	}

	st := w.newState(1)
	ctx := ctxFor(st)
	var mboxA *Mailbox
	if err := st.Select(ctx, "A", func(m *Mailbox) error { mboxA = m; return nil }); err != nil {
		panic(err)
	}

	// optionally a second session has B selected; it learns of the command through the update pipeline and
	// then issues its own EXPUNGE (\Deleted is per mailbox: what the command did in A must not change what B loses)
	var peer *State
	var mboxB *Mailbox
	if vsymParam("peer") == 1 {
		peer = w.newState(2)
		if err := peer.Select(ctxFor(peer), "B", func(m *Mailbox) error { mboxB = m; return nil }); err != nil {
			panic(err)
		}
	}

	// optionally another session on A has just expunged one message: committed, but this session's view still shows
	// it (the update is queued).  A MOVE issued on the stale view must not resurrect the expunged message.
	stale := -1
	if vsymParam("stale") == 1 && nA > 0 {
		stale = vsymChoice("staleWhich", nA)
		other := w.newState(3)
		if err := other.Select(ctxFor(other), "A", func(m *Mailbox) error { return nil }); err != nil {
			panic(err)
		}
		err := stateDBWrite(ctxFor(other), other, func(ctx context.Context, tx db.Transaction) ([]Update, error) {
			return other.actionRemoveMessagesFromMailbox(ctx, tx, []db.MessageIDPair{pool[stale]}, db.MailboxIDPair{InternalID: a.ID, RemoteID: a.Remote})
		})
		vsymAssert(err == nil, "EXPUNGE by the other session succeeds")
	}

	// message set: "1", "1:*" or "*" (resolution itself is C16's subject)
	var set []command.SeqRange
	var sel []int // positions in A
	switch vsymChoice("set", 3) {
	case 0:
		set = []command.SeqRange{{Begin: 1, End: 1}}
		sel = []int{0}
	case 1:
		set = []command.SeqRange{{Begin: 1, End: 0}}
		for i := 0; i < nA; i++ {
			sel = append(sel, i)
		}
	case 2:
		set = []command.SeqRange{{Begin: 0, End: 0}}
		sel = []int{nA - 1}
	}
	if nA == 0 {
		vsymAssume(false)
	}
	argMask := []int{c3Seen, c3Deleted, c3Deleted | c3Flagged, 0, c3Custom}[vsymChoice("argFlags", 5)]
	argLower := vsymChoice("argLower", 2) == 1
	arg := imap.NewFlagSetFromSlice(c3Spell(argMask, argLower))

	var err error
	nOps := 8
	if lean {
		nOps = 3
	}
	op := 6 // the stale-view dimension is decided for MOVE
	if stale < 0 {
		op = vsymChoice("op", nOps)
	}
	viewA := append([]c3Row(nil), refA...) // what the session's view shows (positions of the message set)
	if stale >= 0 {
		// reference: the expunged message is gone from A and is not part of what the command moves
		var keep []c3Row
		for _, r := range refA {
			if r.msg != stale {
				keep = append(keep, r)
			}
		}
		refA = keep
	}
	switch op {
	case 0, 1, 2: // STORE +FLAGS / -FLAGS / FLAGS
		action := []command.StoreAction{command.StoreActionAddFlags, command.StoreActionRemFlags, command.StoreActionSetFlags}[op]
		err = mboxA.Store(ctx, set, action, arg)
		if err == nil {
			for _, p := range sel {
				r := &refA[p]
				m := argMask &^ c3Deleted
				switch op {
				case 0:
					flags[r.msg] |= m
					if argMask&c3Deleted != 0 {
						r.deleted = true
					}
				case 1:
					flags[r.msg] &^= m
					if argMask&c3Deleted != 0 {
						r.deleted = false
					}
				case 2:
					flags[r.msg] = m
					r.deleted = argMask&c3Deleted != 0
				}
			}
		}
	case 3: // EXPUNGE
		err = mboxA.Expunge(ctx, nil)
		if err == nil {
			var keep []c3Row
			for _, r := range refA {
				if !r.deleted {
					keep = append(keep, r)
				}
			}
			refA = keep
		}
	case 4: // UID EXPUNGE set (sequence set here; only deleted messages of the set go away)
		err = mboxA.Expunge(ctx, set)
		if err == nil {
			var keep []c3Row
			for i, r := range refA {
				in := false
				for _, p := range sel {
					if p == i {
						in = true
					}
				}
				if !(in && r.deleted) {
					keep = append(keep, r)
				}
			}
			refA = keep
		}
	case 5, 6: // COPY / MOVE to B
		if op == 5 {
			_, err = mboxA.Copy(ctx, set, "B")
		} else {
			_, err = mboxA.Move(ctx, set, "B")
		}
		if err == nil {
			moved := map[int]bool{}
			for _, p := range sel {
				msg := viewA[p].msg
				if msg == stale {
					continue // expunged by the other session: not in A any more, must not reappear in B
				}
				moved[msg] = true
				var keep []c3Row
				for _, r := range refB { // a message is in a mailbox at most once: re-adding gives it a fresh UID at the end
					if r.msg != msg {
						keep = append(keep, r)
					}
				}
				refB = append(keep, c3Row{msg, false})
			}
			if op == 6 {
				var keep []c3Row
				for _, r := range refA {
					if !moved[r.msg] {
						keep = append(keep, r)
					}
				}
				refA = keep
			}
		}
	case 7: // COPY onto the same mailbox: fresh UIDs at the end, old rows gone
		_, err = mboxA.Copy(ctx, set, "A")
		if err == nil {
			var moved []c3Row
			var keep []c3Row
			for i, r := range refA {
				in := false
				for _, p := range sel {
					if p == i {
						in = true
					}
				}
				if in {
					moved = append(moved, c3Row{r.msg, false})
				} else {
					keep = append(keep, r)
				}
			}
			refA = append(keep, moved...)
		}
	}
	if err != nil {
		vsymCover("command-error")
		return
	}
	vsymCover("command-ok")
	c3Compare(w.db, a, refA, pool, flags, "A")
	c3Compare(w.db, b, refB, pool, flags, "B")
	if peer == nil {
		return
	}
	w.deliverAll(1)
	_, err = peer.flushResponses(ctxFor(peer), true)
	vsymAssert(err == nil, "peer NOOP succeeds")
	// the peer's view of B: the messages of B with B's own \Deleted marks and the messages' flags
	view := peer.snap.messages.msg
	vsymAssert(len(view) == len(refB), "peer session sees exactly the messages of B")
	if len(view) != len(refB) {
		return
	}
	for i, m := range view {
		vsymAssert(m.ID.InternalID == pool[refB[i].msg].InternalID, "peer session sees the messages of B in order")
		fm := c3MaskOf(m.flags.Remove(imap.FlagRecent).ToSliceUnsorted())
		vsymAssert((fm&c3Deleted != 0) == refB[i].deleted, "peer session sees B's own \\Deleted mark")
		vsymAssert(fm&^c3Deleted == flags[refB[i].msg], "peer session sees the message flags")
	}
	if err := mboxB.Expunge(ctxFor(peer), nil); err != nil {
		vsymCover("peer-expunge-error")
		return
	}
	var keep []c3Row
	for _, r := range refB {
		if !r.deleted {
			keep = append(keep, r)
		}
	}
	refB = keep
	vsymCover("peer-expunge-ok")
	c3Compare(w.db, a, refA, pool, flags, "A")
	c3Compare(w.db, b, refB, pool, flags, "B")
}

func c3Compare(d *verifdb.DB, box *verifdb.Box, ref []c3Row, pool []db.MessageIDPair, flags []int, name string) {
	vsymAssert(len(box.Rows) == len(ref), "mailbox "+name+" holds exactly the messages of the reference model")
	if len(box.Rows) != len(ref) {
		return
	}
	prev := imap.UID(0)
	for i, r := range box.Rows {
		vsymAssert(r.UID > prev, "UIDs ascending in mailbox "+name)
		prev = r.UID
		vsymAssert(r.Msg == pool[ref[i].msg].InternalID, "messages of mailbox "+name+" in reference order")
		vsymAssert(r.Deleted == ref[i].deleted, "\\Deleted (per mailbox) of "+name+" as in the reference model")
		m := d.Msg(r.Msg)
		vsymAssert(m != nil, "message row exists")
		if m != nil {
			vsymAssert(c3MaskOf(m.Flags) == flags[ref[i].msg], "message flags (case-insensitive) of "+name+" as in the reference model")
		}
	}
}
