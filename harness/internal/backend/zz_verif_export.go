package backend

import (
	"context"

	"github.com/ProtonMail/gluon/imap"
	"github.com/ProtonMail/gluon/limits"
	"github.com/sirupsen/logrus"
)

// VerifNewBackend returns a Backend that only knows its hierarchy delimiter (for session-level harnesses).
func VerifNewBackend(delim string) *Backend {
	return &Backend{delim: delim}
}

type verifCredConn struct {
	verifConnBase
	name, pass string
}

func (c *verifCredConn) Authorize(ctx context.Context, username string, password []byte) bool {
	return username == c.name && string(password) == c.pass
}

func (c *verifCredConn) GetMailboxVisibility(ctx context.Context, id imap.MailboxID) imap.MailboxVisibility {
	return imap.Visible
}

// VerifNewBackendUsers returns a Backend (built by New) with two users, "alice"/"pw1" (user id "id-alice") and
// "bob"/"pw2" (user id "id-bob"); each has an INBOX holding one message in its own index.
func VerifNewBackendUsers() *Backend {
	b, err := New("", "", nil, "/", 3600*1000000000, limits.DefaultLimits(), nil, nil)
	if err != nil {
		panic(err)
	}
	b.log = logrus.WithField("pkg", "gluon/backend")
	for _, cr := range [][3]string{{"alice", "pw1", "id-alice"}, {"bob", "pw2", "id-bob"}} {
		u, d, st := verifUser()
		u.userID = cr[2]
		u.connector = &verifCredConn{name: cr[0], pass: cr[1]}
		box := d.AddBox("INBOX", imap.MailboxID("mb-inbox-"+cr[0]), 2)
		id := imap.NewInternalMessageID()
		d.AddMsg(id, imap.MessageID("rm-"+cr[0]))
		box.AddRow(id, imap.MessageID("rm-"+cr[0]), 1, false, false)
		st.data[id] = []byte("X-Pm-Gluon-Id: " + id.String() + "\r\n" + verifLit1)
		b.users[cr[2]] = u
	}
	return b
}
