package backend

import (
	"context"

	"github.com/ProtonMail/gluon/imap"
)

// VerifApplyUpdate delivers a connector update to a user of the backend through the real appliers (user.apply).
func VerifApplyUpdate(b *Backend, userID string, u imap.Update) error {
	return b.users[userID].apply(context.Background(), u)
}

// VerifNewMessageCreated builds the MessagesCreated update for one new message of the given mailboxes.
func VerifNewMessageCreated(id imap.MessageID, literal string, boxes ...imap.MailboxID) imap.Update {
	return imap.NewMessagesCreated(false, verifMessageCreated(id, literal, boxes...))
}

const VerifLit2 = verifLit2
