package state

import (
	"context"
	"errors"
	"fmt"
	"github.com/ProtonMail/gluon/connector"
	"io"
	"io/fs"
	"time"

	"github.com/ProtonMail/gluon/db"
	"github.com/ProtonMail/gluon/imap"
	"github.com/ProtonMail/gluon/internal/utils"
	"github.com/ProtonMail/gluon/internal/verifdb"
	"github.com/ProtonMail/gluon/limits"
	"github.com/ProtonMail/gluon/store"
	"github.com/sirupsen/logrus"
)

// ---- connector stub: every mutating call may fail under a symbolic fault bit, otherwise has no local effect ----

var errVerifRemote = errors.New("verif: injected connector failure")

type verifConn struct {
	faultBudget int
	faults      int
	calls       []string
	nextID      int
	literals    map[imap.MessageID][]byte // what GetMessageLiteral can serve
	lastErr     error                     // the error of the last injected failure
	sizeErr     error                     // when set, CreateMessage failures use this error (e.g. connector.ErrMessageSizeExceedsLimits)
}

func (c *verifConn) fail(op string) bool {
	if c.faultBudget > 0 && vsymBool("connFault") {
		c.faultBudget--
		c.faults++
		c.calls = append(c.calls, "FAIL "+op)
		// which error the remote answers with: any of its documented sentinels (other than the size error, which
		// CreateMessage selects itself) or an undocumented one - "rejects it for any reason other than size"
		c.lastErr = []error{errVerifRemote, fmt.Errorf("remote: %w", connector.ErrOperationNotAllowed), connector.ErrOperationNotAllowed}[vsymChoice("connErrKind", 3)]
		return true
	}
	c.calls = append(c.calls, op)
	return false
}

func (c *verifConn) SetConnMetadataValue(key string, value any) {}
func (c *verifConn) ClearConnMetadataValue(key string)          {}
func (c *verifConn) ClearAllConnMetadata()                      {}

func (c *verifConn) CreateMailbox(ctx context.Context, tx db.Transaction, name []string) ([]Update, imap.Mailbox, error) {
	if c.fail("CreateMailbox") {
		return nil, imap.Mailbox{}, c.lastErr
	}
	c.nextID++
	return nil, imap.Mailbox{ID: imap.MailboxID(fmt.Sprintf("mb-%d", c.nextID)), Name: name,
		Flags: imap.NewFlagSet(imap.FlagSeen, imap.FlagFlagged, imap.FlagDeleted), PermanentFlags: imap.NewFlagSet(imap.FlagSeen, imap.FlagFlagged, imap.FlagDeleted), Attributes: imap.NewFlagSet()}, nil
}
func (c *verifConn) UpdateMailbox(ctx context.Context, tx db.Transaction, mboxID imap.MailboxID, newName []string) ([]Update, error) {
	if c.fail("UpdateMailbox") {
		return nil, c.lastErr
	}
	return nil, nil
}
func (c *verifConn) DeleteMailbox(ctx context.Context, tx db.Transaction, mboxID imap.MailboxID) ([]Update, error) {
	if c.fail("DeleteMailbox") {
		return nil, c.lastErr
	}
	return nil, nil
}
func (c *verifConn) CreateMessage(ctx context.Context, tx db.Transaction, mboxID imap.MailboxID, literal []byte, flags imap.FlagSet, date time.Time) ([]Update, imap.InternalMessageID, imap.Message, []byte, error) {
	if c.fail("CreateMessage") {
		err := c.lastErr
		if c.sizeErr != nil && vsymBool("connSizeErr") {
			err = c.sizeErr
		}
		return nil, imap.InternalMessageID{}, imap.Message{}, nil, err
	}
	c.nextID++
	return nil, imap.NewInternalMessageID(), imap.Message{ID: imap.MessageID(fmt.Sprintf("rm-%d", c.nextID)), Flags: flags, Date: date}, literal, nil
}
func (c *verifConn) GetMessageLiteral(ctx context.Context, id imap.MessageID) ([]byte, error) {
	if lit, ok := c.literals[id]; ok && !c.fail("GetMessageLiteral") {
		return lit, nil
	}
	return nil, errVerifRemote
}
func (c *verifConn) AddMessagesToMailbox(ctx context.Context, tx db.Transaction, messageIDs []imap.MessageID, mboxID imap.MailboxID) ([]Update, error) {
	if c.fail("AddMessagesToMailbox") {
		return nil, c.lastErr
	}
	return nil, nil
}
func (c *verifConn) RemoveMessagesFromMailbox(ctx context.Context, tx db.Transaction, messageIDs []imap.MessageID, mboxID imap.MailboxID) ([]Update, error) {
	if c.fail("RemoveMessagesFromMailbox") {
		return nil, c.lastErr
	}
	return nil, nil
}
func (c *verifConn) MoveMessagesFromMailbox(ctx context.Context, tx db.Transaction, messageIDs []imap.MessageID, mboxFromID imap.MailboxID, mboxToID imap.MailboxID) ([]Update, bool, error) {
	if c.fail("MoveMessagesFromMailbox") {
		return nil, false, c.lastErr
	}
	return nil, true, nil
}
func (c *verifConn) SetMessagesSeen(ctx context.Context, tx db.Transaction, messageIDs []imap.MessageID, seen bool) ([]Update, error) {
	if c.fail("SetMessagesSeen") {
		return nil, c.lastErr
	}
	return nil, nil
}
func (c *verifConn) SetMessagesFlagged(ctx context.Context, tx db.Transaction, messageIDs []imap.MessageID, flagged bool) ([]Update, error) {
	if c.fail("SetMessagesFlagged") {
		return nil, c.lastErr
	}
	return nil, nil
}
func (c *verifConn) GetMailboxVisibility(ctx context.Context, id imap.MailboxID) imap.MailboxVisibility {
	return imap.Visible
}
func (c *verifConn) SetMessagesForwarded(ctx context.Context, tx db.Transaction, messageIDs []imap.MessageID, forwarded bool) ([]Update, error) {
	if c.fail("SetMessagesForwarded") {
		return nil, c.lastErr
	}
	return nil, nil
}

// ---- message store stub ----

type verifStore struct {
	data        map[imap.InternalMessageID][]byte
	corrupt     map[imap.InternalMessageID]bool // files that exist but cannot be read back
	log         []string
	faultBudget int
}

var errVerifStore = errors.New("verif: injected store failure")

func (s *verifStore) fail(op string) bool {
	if s.faultBudget > 0 && vsymBool("storeFault") {
		s.faultBudget--
		s.log = append(s.log, "FAIL "+op)
		return true
	}
	s.log = append(s.log, op)
	return false
}
func (s *verifStore) Get(id imap.InternalMessageID) ([]byte, error) {
	if s.corrupt[id] {
		return nil, errors.New("verif: cache file is corrupt (decrypt / decompress error)")
	}
	b, ok := s.data[id]
	if !ok {
		return nil, fs.ErrNotExist
	}
	return b, nil
}
func (s *verifStore) Set(id imap.InternalMessageID, r io.Reader) error {
	if s.fail("Set") {
		return errVerifStore
	}
	b, err := io.ReadAll(r)
	if err != nil {
		return err
	}
	s.data[id] = b
	delete(s.corrupt, id)
	return nil
}
func (s *verifStore) Delete(ids ...imap.InternalMessageID) error {
	if s.fail("Delete") {
		return errVerifStore
	}
	for _, id := range ids {
		delete(s.data, id)
	}
	return nil
}
func (s *verifStore) Close() error { return nil }
func (s *verifStore) List() ([]imap.InternalMessageID, error) {
	var out []imap.InternalMessageID
	for id := range s.data {
		out = append(out, id)
	}
	return out, nil
}

// ---- world ----

type verifWorld struct {
	db    *verifdb.DB
	conn  *verifConn
	store *verifStore
	user  *verifUser
	lim   limits.IMAP
}

func verifNewWorld(lim limits.IMAP) *verifWorld {
	w := &verifWorld{db: verifdb.New(), conn: &verifConn{}, store: &verifStore{data: map[imap.InternalMessageID][]byte{}, corrupt: map[imap.InternalMessageID]bool{}}, lim: lim}
	w.user = &verifUser{db: w.db, remote: w.conn, st: store.NewWriteControlledStore(w.store), delimiter: "/", hashes: utils.NewMessageHashesMap()}
	rec := w.db.AddBox("Recovered Messages", "GLUON-INTERNAL-RECOVERY-MBOX", 1)
	w.user.recovery = db.MailboxIDPair{InternalID: rec.ID, RemoteID: rec.Remote}
	return w
}

func (w *verifWorld) newState(id StateID) *State {
	st := &State{
		user:       w.user,
		StateID:    id,
		doneCh:     make(chan struct{}),
		delimiter:  "/",
		imapLimits: w.lim,
		log:        logrus.WithField("pkg", "gluon/state"),
	}
	w.user.addState(st)
	return st
}

// ctxFor is the context a session uses while handling a command of state st.
func ctxFor(st *State) context.Context { return NewStateContext(context.Background(), st) }

// deliverAll applies every pending update of the i-th state (FIFO), as Session.serve does between commands.
func (w *verifWorld) deliverAll(i int) {
	st := w.user.states[i]
	for len(w.user.pending[i]) > 0 {
		u := w.user.pending[i][0]
		w.user.pending[i] = w.user.pending[i][1:]
		if err := st.ApplyUpdate(context.Background(), u); err != nil {
			vsymAssert(false, "ApplyUpdate failed")
		}
	}
}

// addMessage inserts a message with the given flags into a mailbox of the model (construction helper).
func (w *verifWorld) addMessage(b *verifdb.Box, uid imap.UID, flags ...string) db.MessageIDPair {
	id := imap.NewInternalMessageID()
	w.conn.nextID++
	remote := imap.MessageID(fmt.Sprintf("rm-%d", w.conn.nextID))
	w.db.AddMsg(id, remote, flags...)
	b.AddRow(id, remote, uid, false, false)
	return db.MessageIDPair{InternalID: id, RemoteID: remote}
}
