package state

import (
	"strings"
	"time"

	"github.com/ProtonMail/gluon/imap"
	"github.com/ProtonMail/gluon/imap/command"
	"github.com/ProtonMail/gluon/internal/contexts"
	"github.com/ProtonMail/gluon/limits"
	"golang.org/x/text/encoding"
)

type c15Msg struct {
	uid   uint32
	flags int // bit mask: 1 seen, 2 deleted, 4 flagged, 8 recent, 16 keyword "kw"
	size  int
	date  int64
}

const c15Kw = 16

var c15FlagSets = []int{0, vfSeen, vfDeleted | vfFlagged, vfSeen | c15Kw}

func c15Flags(mask int) []string {
	var out []string
	if mask&vfSeen != 0 {
		out = append(out, imap.FlagSeen)
	}
	if mask&vfFlagged != 0 {
		out = append(out, imap.FlagFlagged)
	}
	if mask&c15Kw != 0 {
		out = append(out, "Kw")
	}
	return out
}

type c15Eval func(i int) bool // reference truth of a key for the i-th message of the view (0-based)

// c15Key builds a search key by symbolic choice together with its reference evaluator.
func c15Key(depth int, msgs []c15Msg) (command.SearchKey, c15Eval) {
	n := len(msgs)
	nLeaf := 14
	total := nLeaf
	if depth > 0 {
		total += []int{0, 1, 3}[vsymParam("comp")] // composite keys offered: none / NOT / NOT, OR, list
	}
	has := func(bit int) c15Eval { return func(i int) bool { return msgs[i].flags&bit != 0 } }
	not := func(e c15Eval) c15Eval { return func(i int) bool { return vsymNot(e(i)) } }
	var which int
	if vsymParam("nested") == 1 {
		// NOT / OR over parenthesised lists of cheap (flag) and data (size) keys: NOT ( k k ), OR ( k k ) k
		switch depth {
		case 2:
			which = 16 + vsymChoice("outer", 2) // NOT or OR
		case 1:
			which = 18 // list
		default:
			which = []int{1, 3, 9, 10}[vsymChoice("leaf", 4)]
		}
	} else if vsymParam("sets") == 1 { // message-set keys only (single and two-range sets), see VerifC15Search
		which = []int{11, 12, 14, 15}[vsymChoice("setKey", 4)]
	} else {
		which = vsymChoice("key", total)
		if which >= 14 {
			which += 2
		}
	}
	switch which {
	case 0:
		return &command.SearchKeyAll{}, func(int) bool { return true }
	case 1:
		return &command.SearchKeySeen{}, has(vfSeen)
	case 2:
		return &command.SearchKeyUnseen{}, not(has(vfSeen))
	case 3:
		return &command.SearchKeyDeleted{}, has(vfDeleted)
	case 4:
		return &command.SearchKeyUnflagged{}, not(has(vfFlagged))
	case 5:
		return &command.SearchKeyNew{}, func(i int) bool { return msgs[i].flags&vfRecent != 0 && msgs[i].flags&vfSeen == 0 }
	case 6:
		return &command.SearchKeyOld{}, not(has(vfRecent))
	case 7:
		return &command.SearchKeyKeyword{Value: []string{"kw", "KW"}[vsymChoice("kwCase", 2)]}, has(c15Kw)
	case 8:
		return &command.SearchKeyUnkeyword{Value: "Kw"}, not(has(c15Kw))
	case 9:
		v := vsymRange("larger", 0, 1<<40)
		return &command.SearchKeyLarger{Value: v}, func(i int) bool { return msgs[i].size > v }
	case 10:
		v := vsymRange("smaller", 0, 1<<40)
		return &command.SearchKeySmaller{Value: v}, func(i int) bool { return msgs[i].size < v }
	case 11: // UID a:b with symbolic 32-bit ends (0 = '*')
		a := vsymRange("uidA", 0, 4294967295)
		b := vsymRange("uidB", 0, 4294967295)
		// not judged (property text): a range with '*' whose other end lies above the highest UID
		vsymAssume(vsymNot(vsymAnd(vsymOr(a == 0, b == 0), a+b > int(msgs[n-1].uid))))
		key := &command.SearchKeyUID{SeqSet: []command.SeqRange{{Begin: command.SeqNum(a), End: command.SeqNum(b)}}}
		return key, func(i int) bool {
			max := int(msgs[n-1].uid)
			lo := vsymIteInt(a == 0, max, a)
			hi := vsymIteInt(b == 0, max, b)
			l := vsymIteInt(lo > hi, hi, lo)
			h := vsymIteInt(lo > hi, lo, hi)
			u := int(msgs[i].uid)
			return vsymAnd(l <= u, u <= h)
		}
	case 12: // sequence set from a few shapes
		shape := vsymChoice("seqShape", 3)
		var rg command.SeqRange
		var lo, hi int
		switch shape {
		case 0:
			rg, lo, hi = command.SeqRange{Begin: 1, End: 1}, 1, 1
		case 1:
			rg, lo, hi = command.SeqRange{Begin: 0, End: 1}, 1, n
		case 2:
			rg, lo, hi = command.SeqRange{Begin: command.SeqNum(n), End: command.SeqNum(n)}, n, n
		}
		return &command.SearchKeySeqSet{SeqSet: []command.SeqRange{rg}}, func(i int) bool { return lo <= i+1 && i+1 <= hi }
	case 13:
		d := int64(vsymRange("before", 0, 4102444800))
		return &command.SearchKeyBefore{Value: time.Unix(d, 0)}, func(i int) bool { return msgs[i].date < d }
	case 14: // UID set of two ranges with symbolic ends (either order, overlapping, nested or disjoint)
		var r [4]int
		for j := range r {
			r[j] = vsymRange("uid2", 1, 4294967295)
		}
		key := &command.SearchKeyUID{SeqSet: []command.SeqRange{{Begin: command.SeqNum(r[0]), End: command.SeqNum(r[1])}, {Begin: command.SeqNum(r[2]), End: command.SeqNum(r[3])}}}
		return key, func(i int) bool {
			u := int(msgs[i].uid)
			in1 := vsymOr(vsymAnd(r[0] <= u, u <= r[1]), vsymAnd(r[1] <= u, u <= r[0]))
			in2 := vsymOr(vsymAnd(r[2] <= u, u <= r[3]), vsymAnd(r[3] <= u, u <= r[2]))
			return vsymOr(in1, in2)
		}
	case 15: // sequence set of two ranges with symbolic ends inside the view
		var r [4]int
		for j := range r {
			r[j] = vsymRange("seq2", 1, n)
		}
		key := &command.SearchKeySeqSet{SeqSet: []command.SeqRange{{Begin: command.SeqNum(r[0]), End: command.SeqNum(r[1])}, {Begin: command.SeqNum(r[2]), End: command.SeqNum(r[3])}}}
		return key, func(i int) bool {
			q := i + 1
			in1 := vsymOr(vsymAnd(r[0] <= q, q <= r[1]), vsymAnd(r[1] <= q, q <= r[0]))
			in2 := vsymOr(vsymAnd(r[2] <= q, q <= r[3]), vsymAnd(r[3] <= q, q <= r[2]))
			return vsymOr(in1, in2)
		}
	case 16:
		k, e := c15Key(depth-1, msgs)
		return &command.SearchKeyNot{Key: k}, not(e)
	case 17:
		k1, e1 := c15Key(depth-1, msgs)
		d2 := depth - 1
		if vsymParam("nested") == 1 {
			d2 = 0
		}
		k2, e2 := c15Key(d2, msgs)
		return &command.SearchKeyOr{Key1: k1, Key2: k2}, func(i int) bool { return vsymOr(e1(i), e2(i)) }
	default:
		k1, e1 := c15Key(depth-1, msgs)
		k2, e2 := c15Key(depth-1, msgs)
		return &command.SearchKeyList{Keys: []command.SearchKey{k1, k2}}, func(i int) bool { return vsymAnd(e1(i), e2(i)) }
	}
}

// VerifC15Search: SEARCH returns exactly the messages of the session's view for which the reference evaluator of the
// same key tree is true, ascending, without duplicates; UID SEARCH returns their UIDs.
func VerifC15Search() {
	n := vsymParam("n")
	depth := vsymParam("depth")
	w := verifNewWorld(limits.DefaultLimits())
	a := w.db.AddBox("A", "mb-A", 2)
	msgs := make([]c15Msg, n)
	prev := uint32(0)
	for i := range msgs {
		u := vsymUint32("uid")
		vsymAssume(u > prev)
		prev = u
		sets := vsymParam("sets") == 1
		fl := 0
		if !sets {
			fl = c15FlagSets[vsymChoice("flags", len(c15FlagSets))]
		}
		id := w.addMessage(a, imap.UID(u), c15Flags(fl)...)
		row := a.Row(id.InternalID)
		row.Deleted = fl&vfDeleted != 0
		if vsymParam("recent") == 1 && vsymChoice("recent", 2) == 1 {
			row.Recent = true // the searching session is the first to see it: \Recent in its view
			fl |= vfRecent
		}
		m := w.db.Msg(id.InternalID)
		d := int64(0)
		if !sets {
			m.Size = vsymRange("size", 0, 1<<40)
			d = int64(vsymRange("date", 0, 4102444800))
		}
		m.Date = time.Unix(d, 0)
		msgs[i] = c15Msg{uid: u, flags: fl, size: m.Size, date: d}
	}
	st := w.newState(1)
	ctx := contexts.NewDisableParallelismCtx(ctxFor(st), true)
	var mbox *Mailbox
	if err := st.Select(ctx, "A", func(m *Mailbox) error { mbox = m; return nil }); err != nil {
		panic(err)
	}
	asUID := vsymChoice("uidSearch", 2) == 1
	if asUID {
		ctx = contexts.AsUID(ctx)
	}
	key, eval := c15Key(depth, msgs)
	keys := []command.SearchKey{key}
	if vsymParam("sets") == 0 && vsymParam("nested") == 0 && vsymChoice("twoKeys", 2) == 1 { // juxtaposition = intersection
		k2, e2 := c15Key(0, msgs)
		keys = append(keys, k2)
		e1 := eval
		eval = func(i int) bool { return vsymAnd(e1(i), e2(i)) }
	}
	res, err := mbox.Search(ctx, keys, encoding.Nop.NewDecoder())
	if err != nil {
		vsymCover("search-error")
		vsymAssert(n == 0, "SEARCH with in-range sets does not fail on a non-empty view")
		return
	}
	vsymCover("search-ok")
	// res is concrete in length on this path: walk it against the view
	pos := 0
	for i := 0; i < n; i++ {
		var id uint32
		if asUID {
			id = msgs[i].uid
		} else {
			id = uint32(i + 1)
		}
		in := pos < len(res) && res[pos] == id
		if in {
			pos++
		}
		want := eval(i)
		vsymAssert(vsymOr(vsymAnd(in, want), vsymAnd(vsymNot(in), vsymNot(want))), "message is returned iff it satisfies the key expression")
	}
	vsymAssert(pos == len(res), "nothing but messages of the view, ascending, no duplicates")
}

// ---- text, header and date keys on concrete messages ----

type c15Doc struct {
	subject, from, to, body string
	dateHdr                 string // Date: header as written
	sentY, sentM, sentD     int    // the day the Date header names (disregarding time and zone)
	internal                time.Time
}

var c15Docs = []c15Doc{
	{"Hello World", "alice@example.org", "bob@example.org", "lorem ipsum\r\n", "Wed, 01 Jan 2020 23:30:00 -0200", 2020, 1, 1, time.Date(2020, 1, 1, 0, 0, 0, 0, time.UTC)},
	{"re: hello", "Bob <BOB@example.org>", "carol@example.org", "dolor sit amet\r\n", "Thu, 02 Jan 2020 00:10:00 +0000", 2020, 1, 2, time.Date(2020, 1, 1, 23, 59, 59, 0, time.UTC)},
	{"", "dave@example.org", "alice@example.org", "Hello from the body\r\n", "Fri, 03 Jan 2020 12:00:00 +0530", 2020, 1, 3, time.Date(2020, 1, 2, 0, 0, 0, 0, time.UTC)},
}

func (d c15Doc) literal() string {
	s := "From: " + d.from + "\r\nTo: " + d.to + "\r\nDate: " + d.dateHdr + "\r\n"
	if d.subject != "" {
		s += "Subject: " + d.subject + "\r\n"
	}
	return s + "\r\n" + d.body
}

var c15Needles = []string{"hello", "HELLO", "bob", "example.org", "lorem", "zzz", "o w", ""}

func c15Has(hay, needle string) bool {
	return strings.Contains(strings.ToLower(hay), strings.ToLower(needle))
}

// VerifC15Text: SUBJECT / FROM / TO / BODY / TEXT / HEADER and the date keys (BEFORE, ON, SINCE on the internal date,
// SENTBEFORE, SENTON, SENTSINCE on the Date header) on a view of two concrete messages chosen from a pool, the key
// optionally under NOT: compared with case-insensitive substring matching on the respective part / with calendar
// days (disregarding time and zone).
func VerifC15Text() {
	w := verifNewWorld(limits.DefaultLimits())
	a := w.db.AddBox("A", "mb-A", 2)
	var docs []c15Doc
	for i := 0; i < 2; i++ {
		d := c15Docs[vsymChoice("doc", len(c15Docs))]
		docs = append(docs, d)
		id := w.addMessage(a, imap.UID(i+1))
		w.store.data[id.InternalID] = []byte(d.literal())
		m := w.db.Msg(id.InternalID)
		m.Date = d.internal
		m.Size = len(d.literal())
	}
	st := w.newState(1)
	ctx := contexts.NewDisableParallelismCtx(ctxFor(st), true)
	var mbox *Mailbox
	if err := st.Select(ctx, "A", func(m *Mailbox) error { mbox = m; return nil }); err != nil {
		panic(err)
	}
	needle := c15Needles[vsymChoice("needle", len(c15Needles))]
	day := 1 + vsymChoice("day", 3)
	date := time.Date(2020, 1, day, 0, 0, 0, 0, time.UTC)
	var key command.SearchKey
	var ref func(d c15Doc) bool
	switch vsymChoice("key", 12) {
	case 0:
		key, ref = &command.SearchKeySubject{Value: needle}, func(d c15Doc) bool { return c15Has(d.subject, needle) }
	case 1:
		key, ref = &command.SearchKeyFrom{Value: needle}, func(d c15Doc) bool { return c15Has(d.from, needle) }
	case 2:
		key, ref = &command.SearchKeyTo{Value: needle}, func(d c15Doc) bool { return c15Has(d.to, needle) }
	case 3:
		key, ref = &command.SearchKeyBody{Value: needle}, func(d c15Doc) bool { return c15Has(d.body, needle) }
	case 4:
		key, ref = &command.SearchKeyText{Value: needle}, func(d c15Doc) bool { return c15Has(d.literal(), needle) }
	case 5:
		field := []string{"Subject", "subject", "X-Missing"}[vsymChoice("field", 3)]
		key = &command.SearchKeyHeader{Field: field, Value: needle}
		ref = func(d c15Doc) bool {
			return field != "X-Missing" && c15Has(d.subject, needle) || field == "X-Missing" && needle == ""
		}
	case 6:
		key, ref = &command.SearchKeyBefore{Value: date}, func(d c15Doc) bool { return d.internal.Before(date) }
	case 7:
		key, ref = &command.SearchKeyOn{Value: date}, func(d c15Doc) bool { return d.internal.Day() == day }
	case 8:
		key, ref = &command.SearchKeySince{Value: date}, func(d c15Doc) bool { return d.internal.Day() >= day }
	case 9:
		key, ref = &command.SearchKeySentBefore{Value: date}, func(d c15Doc) bool { return d.sentD < day }
	case 10:
		key, ref = &command.SearchKeySentOn{Value: date}, func(d c15Doc) bool { return d.sentD == day }
	case 11:
		key, ref = &command.SearchKeySentSince{Value: date}, func(d c15Doc) bool { return d.sentD >= day }
	}
	neg := vsymChoice("not", 2) == 1
	if neg {
		key = &command.SearchKeyNot{Key: key}
	}
	res, err := mbox.Search(ctx, []command.SearchKey{key}, encoding.Nop.NewDecoder())
	vsymAssert(err == nil, "SEARCH with a text / date key succeeds")
	if err != nil {
		return
	}
	pos := 0
	for i, d := range docs {
		in := pos < len(res) && res[pos] == uint32(i+1)
		if in {
			pos++
		}
		vsymAssert(in == (ref(d) != neg), "message is returned iff it satisfies the text / date key")
	}
	vsymAssert(pos == len(res), "nothing but messages of the view, ascending, no duplicates")
	vsymCover("text-search")
}
