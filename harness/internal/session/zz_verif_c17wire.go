package session

import (
	"context"
	"strings"

	"github.com/ProtonMail/gluon/events"
	"github.com/ProtonMail/gluon/internal/backend"
	"github.com/ProtonMail/gluon/version"
)

// c17Count reads n off `* STATUS <name> (MESSAGES n)`.
func c17Messages(lines []string) (int, bool) {
	for _, l := range lines {
		if i := strings.Index(l, "(MESSAGES "); strings.HasPrefix(l, "* STATUS") && i >= 0 {
			n, ok := 0, false
			for _, c := range l[i+len("(MESSAGES "):] {
				if c < '0' || c > '9' {
					break
				}
				n, ok = n*10+int(c-'0'), true
			}
			return n, ok
		}
	}
	return 0, false
}

// VerifC17Wire: the configured limits seen by a client on the wire (real session loop): with at most 4 mailboxes (the
// hidden recovery mailbox included) and at most 3 messages per mailbox, a history of k CREATE / APPEND / COPY commands:
// after a command answered OK every listed mailbox holds at most 3 messages (STATUS) and at most 3 mailboxes are
// listed; a command answered NO has changed neither the list of mailboxes nor any message count.
func VerifC17Wire() {
	k := vsymParam("k")
	const maxMbox, maxMsg = 4, 3
	be := backend.VerifNewBackendUsers()
	backend.VerifSetLimits(be, maxMbox, maxMsg)
	conn := &verifPipeConn{in: make(chan []byte, 4)}
	s := New(conn, be, 1, version.Info{}, nil, make(chan events.Event, 256), 0, nil)
	go func() { _ = s.serve(context.Background()) }()
	vsymAssert(c1Tagged(conn.send("l LOGIN alice pw1"), "l", "OK"), "LOGIN is answered OK")
	vsymAssert(c1Tagged(conn.send("s SELECT INBOX"), "s", "OK"), "SELECT is answered OK")
	lit := "To: a@b.c\r\nFrom: d@e.f\r\nDate: Mon, 7 Feb 1994 21:52:25 -0800\r\nSubject: s\r\n\r\nx"
	// what the client can see: the listed mailboxes and their message counts
	type view struct {
		names  []string
		counts []int
	}
	look := func() view {
		var v view
		for _, l := range conn.send("i LIST \"\" \"*\"") {
			if strings.HasPrefix(l, "* LIST") {
				f := strings.Split(l, "\"")
				if len(f) >= 4 {
					v.names = append(v.names, f[len(f)-2])
				}
			}
		}
		for _, n := range v.names {
			c, ok := c17Messages(conn.send("u STATUS \"" + n + "\" (MESSAGES)"))
			vsymAssert(ok, "STATUS of a listed mailbox is answered")
			v.counts = append(v.counts, c)
		}
		return v
	}
	same := func(a, b view) bool {
		if len(a.names) != len(b.names) {
			return false
		}
		for i := range a.names {
			if a.names[i] != b.names[i] || a.counts[i] != b.counts[i] {
				return false
			}
		}
		return true
	}
	before := look()
	created := 0
	for step := 0; step < k; step++ {
		var ans []string
		switch vsymChoice("op", 4) {
		case 0: // CREATE a new mailbox
			created++
			ans = conn.send("c CREATE m" + string(rune('0'+created)))
		case 1: // CREATE with a missing superior (two mailboxes at once)
			created++
			ans = conn.send("c CREATE p" + string(rune('0'+created)) + "/q")
		case 2: // APPEND into INBOX
			cont := conn.send("c APPEND INBOX {" + string(rune('0'+len(lit)/10)) + string(rune('0'+len(lit)%10)) + "}")
			vsymAssert(len(cont) == 1 && strings.HasPrefix(cont[0], "+"), "continuation request")
			start := len(conn.lines)
			conn.in <- []byte(lit + "\r\n")
			vsymSched()
			ans = conn.lines[start:len(conn.lines):len(conn.lines)]
		case 3: // COPY everything in INBOX onto itself / into m1
			ans = conn.send("c COPY 1:* " + []string{"INBOX", "m1"}[vsymChoice("copyTo", 2)])
		}
		after := look()
		if c1Tagged(ans, "c", "OK") {
			vsymCover("limit-accepted")
			listed := 0
			for i, n := range after.names {
				if n != "Recovered Messages" {
					listed++
					vsymAssert(after.counts[i] <= maxMsg, "after an accepted command no mailbox holds more messages than the configured maximum")
				}
			}
			vsymAssert(listed+1 <= maxMbox, "after an accepted command there are no more mailboxes than the configured maximum")
		} else if c1Tagged(ans, "c", "NO") {
			vsymCover("limit-refused")
			// (a refused APPEND is parked in the recovery mailbox - C20 -, which then appears in the list)
			var a2, b2 view
			for i, n := range after.names {
				if n != "Recovered Messages" {
					a2.names, a2.counts = append(a2.names, n), append(a2.counts, after.counts[i])
				}
			}
			for i, n := range before.names {
				if n != "Recovered Messages" {
					b2.names, b2.counts = append(b2.names, n), append(b2.counts, before.counts[i])
				}
			}
			vsymAssert(same(a2, b2), "a refused command has changed neither the list of mailboxes nor any message count")
		} else {
			vsymAssert(false, "every command is answered OK or NO")
		}
		before = after
	}
}
