package sqlite3

import (
	"context"
	"database/sql"
	"database/sql/driver"
	"errors"
	"io"
	"strings"

	"github.com/ProtonMail/gluon/db"
	"github.com/ProtonMail/gluon/imap"
	"github.com/ProtonMail/gluon/internal/db_impl/sqlite3/utils"
	v1 "github.com/ProtonMail/gluon/internal/db_impl/sqlite3/v1"
	v2 "github.com/ProtonMail/gluon/internal/db_impl/sqlite3/v2"
)

// ---- recording QueryWrapper: every statement gluon sends is a concrete string plus an argument list ----

type verifStmt struct {
	query string
	args  []any
}

type verifQW struct {
	stmts []verifStmt
}

type verifResult struct{}

func (verifResult) LastInsertId() (int64, error) { return 1, nil }
func (verifResult) RowsAffected() (int64, error) { return 1, nil }

// Row-returning statements report "no rows": under the engine (*sql.Rows).Next / (*sql.Row).Scan are modelled that
// way on a nil receiver; natively an empty result set comes from a do-nothing database/sql driver.
func (q *verifQW) QueryContext(ctx context.Context, query string, args ...any) (*sql.Rows, error) {
	q.stmts = append(q.stmts, verifStmt{query, args})
	if vsymIsSym() {
		return nil, nil
	}
	return verifFakeDB().QueryContext(ctx, "x")
}
func (q *verifQW) QueryRowContext(ctx context.Context, query string, args ...any) *sql.Row {
	q.stmts = append(q.stmts, verifStmt{query, args})
	if vsymIsSym() {
		return nil
	}
	return verifFakeDB().QueryRowContext(ctx, "x")
}

type vfDriver struct{}
type vfConn struct{}
type vfStmt struct{}
type vfRows struct{}

func (vfDriver) Open(name string) (driver.Conn, error)     { return vfConn{}, nil }
func (vfConn) Prepare(query string) (driver.Stmt, error)   { return vfStmt{}, nil }
func (vfConn) Close() error                                { return nil }
func (vfConn) Begin() (driver.Tx, error)                   { return nil, errors.New("no tx") }
func (vfStmt) Close() error                                { return nil }
func (vfStmt) NumInput() int                               { return -1 }
func (vfStmt) Exec(args []driver.Value) (driver.Result, error) { return driver.RowsAffected(1), nil }
func (vfStmt) Query(args []driver.Value) (driver.Rows, error)  { return vfRows{}, nil }
func (vfRows) Columns() []string                           { return []string{"c"} }
func (vfRows) Close() error                                { return nil }
func (vfRows) Next(dest []driver.Value) error              { return io.EOF }

var vfDB *sql.DB

func verifFakeDB() *sql.DB {
	if vfDB == nil {
		sql.Register("veriffake", vfDriver{})
		d, err := sql.Open("veriffake", "")
		if err != nil {
			panic(err)
		}
		vfDB = d
	}
	return vfDB
}
func (q *verifQW) ExecContext(ctx context.Context, query string, args ...any) (sql.Result, error) {
	q.stmts = append(q.stmts, verifStmt{query, args})
	return verifResult{}, nil
}
func (q *verifQW) PrepareStatement(ctx context.Context, query string) (utils.StmtWrapper, error) {
	return &verifPrepared{q: q, query: query}, nil
}

type verifPrepared struct {
	q     *verifQW
	query string
}

func (p *verifPrepared) QueryContext(ctx context.Context, args ...any) (*sql.Rows, error) {
	return p.q.QueryContext(ctx, p.query, args...)
}
func (p *verifPrepared) QueryRowContext(ctx context.Context, args ...any) *sql.Row {
	return p.q.QueryRowContext(ctx, p.query, args...)
}
func (p *verifPrepared) ExecContext(ctx context.Context, args ...any) (sql.Result, error) {
	return p.q.ExecContext(ctx, p.query, args...)
}
func (p *verifPrepared) Close() error { return nil }

// ---- statement well-formedness ----

var verifVerbs = []string{"SELECT ", "INSERT ", "UPDATE ", "DELETE ", "DROP ", "CREATE ", "ALTER ", "PRAGMA ", "WITH "}

func verifKnownTable(name string, box imap.InternalMailboxID) bool {
	name = strings.Trim(name, "`'\"")
	switch name {
	case v1.DeletedSubscriptionsTableName, v1.MailboxAttrsTableName, v1.MailboxFlagsTableName, v1.MailboxPermFlagsTableName,
		v1.MailboxesTableName, v1.MessageFlagsTableName, v1.MessagesTableName, v1.MessageToMailboxTableName,
		v2.ConnectorSettingsTableName, "sqlite_sequence", v1.MailboxMessageTableName(box):
		return true
	}
	return false
}

// verifTargetTable returns the identifier after the first FROM / INTO / UPDATE / TABLE keyword.
func verifTargetTable(q string) string {
	words := strings.Fields(q)
	for i, w := range words {
		u := strings.ToUpper(w)
		if (u == "FROM" || u == "INTO" || u == "UPDATE" || u == "TABLE") && i+1 < len(words) {
			t := words[i+1]
			if strings.ToUpper(t) == "IF" { // CREATE TABLE IF NOT EXISTS x
				if i+4 < len(words) {
					return words[i+4]
				}
			}
			if j := strings.IndexByte(t, '('); j > 0 {
				t = t[:j]
			}
			return t
		}
	}
	return ""
}

func verifCheckStatements(q *verifQW, box imap.InternalMailboxID) {
	vsymAssert(len(q.stmts) > 0, "operation sends at least one statement")
	for _, s := range q.stmts {
		okVerb := false
		for _, v := range verifVerbs {
			if strings.HasPrefix(strings.ToUpper(strings.TrimSpace(s.query)), v) {
				okVerb = true
			}
		}
		vsymAssert(okVerb, "statement starts with an SQL verb")
		vsymAssert(verifKnownTable(verifTargetTable(s.query), box), "statement addresses a table of the schema")
		vsymAssert(strings.Count(s.query, "?") == len(s.args), "number of placeholders equals the number of bound arguments")
	}
}

// verifCountBound counts in how many statements' argument lists id occurs, and how often in total.
func verifCountBound(q *verifQW, id imap.InternalMessageID, onlyQueryContaining string) (total int) {
	for _, s := range q.stmts {
		if onlyQueryContaining != "" && !strings.Contains(s.query, onlyQueryContaining) {
			continue
		}
		for _, a := range s.args {
			if v, ok := a.(imap.InternalMessageID); ok && v == id {
				total++
			}
		}
	}
	return
}

func verifIDs(n int) []imap.InternalMessageID {
	ids := make([]imap.InternalMessageID, n)
	for i := range ids {
		ids[i] = imap.NewInternalMessageID()
		// one symbolic byte per id: the binding obligations are decided for every id value, not for one sample
		ids[i].UUID[0] = vsymByte("idByte")
		ids[i].UUID[1] = byte(i)
		ids[i].UUID[2] = byte(i >> 8)
	}
	return ids
}

// VerifC03Statements: the statement contract of the chunked write/read operations.
//   (a) every statement starts with an SQL verb and addresses a table of the schema,
//   (b) placeholders = bound arguments,
//   (c) every element of the input list is bound exactly the expected number of times per statement kind
//       (so the chunks partition the input).
func VerifC03Statements() {
	n := vsymParam("n")
	m := vsymParam("flags")
	op := vsymParam("op")
	ctx := context.Background()
	q := &verifQW{}
	w := writeOps{readOps: readOps{qw: q}, qw: q}
	const box = imap.InternalMailboxID(7)
	ids := verifIDs(n)
	flagNames := []string{imap.FlagSeen, imap.FlagFlagged, "custom"}[:m]
	var err error
	perID := 1   // expected bindings of each id per statement kind
	kind := ""   // substring selecting the statement kind for (c); "" = all statements
	switch op {
	case 0:
		err = w.RemoveMessagesFromMailbox(ctx, box, ids)
		perID = 2 // once in the mailbox table statement, once in message_to_mailbox
	case 1:
		err = w.SetMailboxMessagesDeletedFlag(ctx, box, ids, true)
	case 2:
		err = w.DeleteMessages(ctx, ids)
	case 3:
		err = w.AddFlagToMessages(ctx, ids, imap.FlagSeen)
	case 4:
		err = w.RemoveFlagFromMessages(ctx, ids, imap.FlagSeen)
		for _, st := range q.stmts {
			vsymAssert(strings.Contains(strings.ToUpper(st.query), "COLLATE NOCASE"), "flags are removed case-insensitively (contract of the relational stub)")
		}
	case 5:
		err = w.SetFlagsOnMessages(ctx, ids, imap.NewFlagSet(flagNames...))
		perID = 1 + m // once in the DELETE, once per flag in the INSERT
	case 6:
		pairs := make([]db.MessageIDPair, n)
		for i := range pairs {
			pairs[i] = db.MessageIDPair{InternalID: ids[i], RemoteID: "r"}
		}
		_, err = w.AddMessagesToMailbox(ctx, box, pairs)
		perID = 3 // mailbox table, message_to_mailbox, and the read-back query
	case 7:
		_, err = w.MailboxFilterContainsInternalID(ctx, box, ids)
	case 8:
		_, err = w.GetMessagesFlags(ctx, ids)
	case 9:
		if n > 0 {
			err = w.UpdateRemoteMessageID(ctx, ids[0], "new-remote")
		}
		perID = -1
	case 10:
		_, err = w.MailboxExistsWithID(ctx, box)
		perID = -1
	case 11:
		reqs := make([]*db.CreateMessageReq, n)
		for i := range reqs {
			reqs[i] = &db.CreateMessageReq{InternalID: ids[i], Message: imap.Message{ID: "r", Flags: imap.NewFlagSet(flagNames...)}}
		}
		err = w.CreateMessages(ctx, reqs...)
		perID = 1 + m
	case 12:
		err = w.RenameMailboxWithRemoteID(ctx, "mb", "name")
		perID = -1
	case 13:
		err = w.SetMailboxUIDValidity(ctx, box, 5)
		perID = -1
	case 14:
		err = w.MarkMessageAsDeleted(ctx, ids[0])
		perID = -1
	}
	_ = kind
	vsymAssert(err == nil, "operation succeeds against a database that accepts every statement")
	if n == 0 && perID >= 0 {
		return
	}
	verifCheckStatements(q, box)
	if perID >= 0 {
		for _, id := range ids {
			vsymAssert(verifCountBound(q, id, "") == perID, "every element of the input list is bound exactly once per statement kind (chunks partition the input)")
		}
	}
}
