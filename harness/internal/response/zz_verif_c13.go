package response

// VerifC13Partial: BODY[..]<begin.count> returns exactly literal[min(begin,len) : min(begin+count,len)]
// (computed without overflow) for every begin >= 0 and count > 0 the parser can produce; never a panic.
func VerifC13Partial() {
	n := vsymParam("len")
	lit := vsymBytes("lit", n)
	orig := make([]byte, n)
	copy(orig, lit)
	begin := vsymInt("begin")
	count := vsymInt("count")
	vsymAssume(begin >= 0)
	vsymAssume(count > 0)

	item := ItemBodyLiteral("", lit).WithPartial(begin, count)

	vsymAssert(item.partial == begin, "recorded partial offset")
	// reference bounds, overflow-free
	lo := vsymIteInt(begin > n, n, begin)
	rest := n - lo
	ln := vsymIteInt(count > rest, rest, count)
	vsymAssert(len(item.literal) == ln, "partial length = min(count, len-begin)")
	got := len(item.literal)
	loC := vsymConcInt(lo)
	for i := 0; i < got; i++ {
		vsymAssert(item.literal[i] == orig[loC+i], "partial bytes are the slice at the requested offset")
	}
}
