package session

import (
	"context"
	"errors"

	"github.com/ProtonMail/gluon/imap/command"
	"github.com/ProtonMail/gluon/internal/response"
	"github.com/ProtonMail/gluon/internal/state"
	"github.com/sirupsen/logrus"
)

var verifSet = []command.SeqRange{{Begin: 1, End: 1}}

// all payload types, by protocol class: 0 any-state, 1 not-authenticated only, 2 authenticated, 3 selected
var verifPayloads = []struct {
	class int
	p     command.Payload
}{
	{0, &command.Capability{}}, {0, &command.Noop{}}, {0, &command.IDGet{}}, {0, &command.IDSet{}},
	{1, &command.Login{UserID: "u", Password: "p"}},
	{2, &command.Select{Mailbox: "INBOX"}}, {2, &command.Examine{Mailbox: "INBOX"}}, {2, &command.Create{Mailbox: "x"}},
	{2, &command.Delete{Mailbox: "x"}}, {2, &command.Rename{From: "x", To: "y"}}, {2, &command.Subscribe{Mailbox: "x"}},
	{2, &command.Unsubscribe{Mailbox: "x"}}, {2, &command.List{Mailbox: "", ListMailbox: "*"}}, {2, &command.LSub{Mailbox: "", LSubMailbox: "*"}},
	{2, &command.Status{Mailbox: "x"}}, {2, &command.Append{Mailbox: "x", Literal: []byte("a: b\r\n\r\n")}},
	{3, &command.Check{}}, {3, &command.Close{}}, {3, &command.Expunge{}}, {3, &command.UIDExpunge{SeqSet: verifSet}},
	{3, &command.Unselect{}}, {3, &command.Search{}}, {3, &command.Fetch{SeqSet: verifSet}}, {3, &command.Store{SeqSet: verifSet}},
	{3, &command.Copy{SeqSet: verifSet, Mailbox: "x"}}, {3, &command.Move{SeqSet: verifSet, Mailbox: "x"}},
	{3, &command.UID{Command: &command.Fetch{SeqSet: verifSet}}},
}

// VerifC18Dispatch: before LOGIN every mailbox / message command is refused with ErrNotAuthenticated, puts nothing
// on the response channel and reaches neither backend nor state; with a state but without a selected mailbox the
// selected-state commands are refused with ErrSessionNotSelected; LOGIN on an authenticated session is refused.
func VerifC18Dispatch() {
	ch := make(chan response.Response, 16)
	s := &Session{log: logrus.WithField("pkg", "gluon/session")}
	withState := vsymChoice("hasState", 2) == 1
	if withState {
		s.state = state.VerifNewBareState()
	}
	i := vsymChoice("payload", len(verifPayloads))
	class, p := verifPayloads[i].class, verifPayloads[i].p
	ctx := context.Background()
	if !withState {
		if class < 2 {
			if class == 1 {
				return // LOGIN needs a backend; credentials are the subject of VerifC18Jail
			}
			if _, isNoop := p.(*command.Noop); !isNoop {
				if _, isCap := p.(*command.Capability); !isCap {
					return // ID commands publish events / talk to the connector: not part of the gate
				}
			}
		}
		err := s.handleCommand(ctx, "tag", p, ch)
		if class >= 2 {
			vsymCover("refused-not-authenticated")
			vsymAssert(errors.Is(err, ErrNotAuthenticated), "mailbox/message command before LOGIN is refused with ErrNotAuthenticated")
			vsymAssert(len(ch) == 0, "a refused command produces no response of its own")
		} else {
			vsymAssert(err == nil, "any-state command works before LOGIN")
		}
		return
	}
	switch class {
	case 1:
		err := s.handleCommand(ctx, "tag", p, ch)
		vsymCover("login-twice")
		vsymAssert(err != nil, "LOGIN on an authenticated session is refused")
		vsymAssert(len(ch) == 0, "refused LOGIN produces no OK")
	case 3:
		err := s.handleCommand(ctx, "tag", p, ch)
		vsymCover("refused-not-selected")
		vsymAssert(errors.Is(err, state.ErrSessionNotSelected), "selected-state command without a selected mailbox is refused with ErrSessionNotSelected")
		vsymAssert(len(ch) == 0, "a refused command produces no response of its own")
	}
}
