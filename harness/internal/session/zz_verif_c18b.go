package session

import (
	"context"
	"errors"

	"github.com/ProtonMail/gluon/events"
	"github.com/ProtonMail/gluon/imap/command"
	"github.com/ProtonMail/gluon/internal/backend"
	"github.com/ProtonMail/gluon/internal/response"
	"github.com/ProtonMail/gluon/internal/state"
	"github.com/sirupsen/logrus"
)

func verifSession() (*Session, chan response.Response, chan events.Event) {
	ev := make(chan events.Event, 64)
	s := &Session{backend: backend.VerifNewBackendUsers(), log: logrus.WithField("pkg", "gluon/session"), eventCh: ev}
	return s, make(chan response.Response, 256), ev
}

// VerifC18Login: LOGIN with arbitrary credential bytes on a server with two users: the session is authenticated
// iff the pair is exactly one user's pair, and then it is bound to that user and sees that user's mailbox.
func VerifC18Login() {
	s, ch, _ := verifSession()
	nb := vsymBytes("user", 3+vsymChoice("userLen", 4))
	pb := vsymBytes("pass", 3+vsymChoice("passLen", 2))
	for _, c := range append(append([]byte(nil), nb...), pb...) {
		vsymAssume(c < 128) // bound: ASCII credentials
	}
	name, pass := string(nb), string(pb)
	ctx := context.Background()
	err := s.handleCommand(ctx, "t1", &command.Login{UserID: name, Password: pass}, ch)
	isAlice := vsymAnd(name == "alice", pass == "pw1")
	isBob := vsymAnd(name == "bob", pass == "pw2")
	if !vsymOr(isAlice, isBob) {
		vsymCover("login-refused")
		vsymAssert(err != nil, "wrong credentials are refused")
		vsymAssert(s.state == nil, "wrong credentials never authenticate")
		vsymAssert(len(ch) == 0, "no OK for wrong credentials")
		return
	}
	vsymCover("login-accepted")
	vsymAssert(err == nil && s.state != nil, "right credentials authenticate")
	if s.state == nil {
		return
	}
	want := "id-bob"
	if isAlice {
		want = "id-alice"
	}
	vsymAssert(s.state.UserID() == want, "the session is bound to the user it authenticated as")
}

// VerifC18AfterClose: LOGIN, SELECT or EXAMINE, then CLOSE or UNSELECT: afterwards every selected-state command is
// refused with ErrSessionNotSelected again, and authenticated-state commands still work.
func VerifC18AfterClose() {
	s, ch, _ := verifSession()
	ctx := context.Background()
	if err := s.handleCommand(ctx, "t1", &command.Login{UserID: "alice", Password: "pw1"}, ch); err != nil {
		panic(err)
	}
	var open command.Payload = &command.Select{Mailbox: "INBOX"}
	if vsymChoice("examine", 2) == 1 {
		open = &command.Examine{Mailbox: "INBOX"}
	}
	err := s.handleCommand(ctx, "t2", open, ch)
	vsymAssert(err == nil, "SELECT/EXAMINE INBOX succeeds")
	if err != nil {
		return
	}
	vsymAssert(s.state.IsSelected(), "mailbox selected")
	var leave command.Payload = &command.Close{}
	if vsymChoice("unselect", 2) == 1 {
		leave = &command.Unselect{}
	}
	err = s.handleCommand(ctx, "t3", leave, ch)
	vsymAssert(err == nil, "CLOSE/UNSELECT succeeds")
	for len(ch) > 0 {
		<-ch
	}
	i := vsymChoice("payload", len(verifPayloads))
	class, p := verifPayloads[i].class, verifPayloads[i].p
	if class != 3 {
		vsymAssume(false)
	}
	err = s.handleCommand(ctx, "t4", p, ch)
	vsymCover("after-close")
	vsymAssert(errors.Is(err, state.ErrSessionNotSelected), "after CLOSE/UNSELECT a selected-state command is refused with ErrSessionNotSelected")
	vsymAssert(len(ch) == 0, "a refused command produces no response of its own")
}
