package session

import (
	"net"
	"strings"
	"time"

	"github.com/ProtonMail/gluon/imap"
	"github.com/ProtonMail/gluon/internal/response"
	"github.com/sirupsen/logrus"
)

// verifWire is a net.Conn that records what the session writes.
type verifWire struct {
	net.Conn
	lines []string
}

func (w *verifWire) Write(b []byte) (int, error) {
	w.lines = append(w.lines, strings.TrimRight(string(b), "\r\n"))
	return len(b), nil
}

// c1Wire is the client's view built from wire lines "* n EXISTS", "* n EXPUNGE", "* n FETCH (FLAGS (...))".
type c1Wire struct {
	count int
	seen  []bool
}

func (m *c1Wire) line(l string) {
	f := strings.Fields(l)
	if len(f) < 3 || f[0] != "*" {
		return
	}
	n := 0
	for _, c := range f[1] {
		n = n*10 + int(c-'0')
	}
	switch f[2] {
	case "EXISTS":
		for m.count < n {
			m.count++
			m.seen = append(m.seen, false)
		}
	case "EXPUNGE":
		if n >= 1 && n <= m.count {
			m.seen = append(m.seen[:n-1:n-1], m.seen[n:]...)
			m.count--
		}
	case "FETCH":
		if n >= 1 && n <= m.count {
			m.seen[n-1] = strings.Contains(strings.ToLower(l), "\\seen")
		}
	}
}

// VerifC01IdleBulk: what the IDLE bulk sender writes to the wire has the net effect of the responses it was
// given, for every placement of the bulk timer's ticks between them and when the idle channel is closed by DONE.
func VerifC01IdleBulk() {
	wire := &verifWire{}
	s := &Session{conn: wire, log: logrus.WithField("pkg", "gluon/session")}
	resCh := make(chan response.Response, 8)
	seenSet := imap.NewFlagSet(imap.FlagSeen)
	streams := [][]response.Response{
		{response.Exists().WithCount(2)},
		{response.Fetch(1).WithItems(response.ItemFlags(seenSet)), response.Exists().WithCount(2)},
		{response.Exists().WithCount(2), response.Expunge(1), response.Fetch(1).WithItems(response.ItemFlags(seenSet))},
		{response.Expunge(1), response.Exists().WithCount(1), response.Exists().WithCount(2)},
	}
	stream := streams[vsymChoice("stream", len(streams))]
	want := &c1Wire{count: 1, seen: []bool{false}}
	for _, r := range stream {
		resCh <- r
		want.line(r.String())
	}
	close(resCh) // DONE
	sendResponsesInBulks(s, resCh, time.Hour)
	got := &c1Wire{count: 1, seen: []bool{false}}
	for _, l := range wire.lines {
		got.line(l)
	}
	vsymAssert(got.count == want.count, "the client is told about every message the idle updates announced")
	if got.count == want.count {
		for i := range want.seen {
			vsymAssert(got.seen[i] == want.seen[i], "the client is told the flags the idle updates announced")
		}
	}
	vsymCover("idle-bulk")
}
