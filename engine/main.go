package main

import (
	"runtime/pprof"
	"encoding/json"
	"flag"
	"fmt"
	"os"
	"sort"
	"sync"
	"time"

	"golang.org/x/tools/go/ssa"
)

type Result struct {
	ID            string                   `json:"id"`
	Entry         string                   `json:"entry"`
	Verdict       string                   `json:"verdict"` // holds | violation | inconclusive
	Reasons       []string                 `json:"reasons,omitempty"`
	Paths         int                      `json:"paths"`
	PathsByEnd    map[string]int           `json:"paths_by_end"`
	Nontrivial    int                      `json:"nontrivial_paths"`
	Branches      int                      `json:"symbolic_branches"`
	Queries       int                      `json:"queries"`
	Obligations   int                      `json:"obligations"`
	Discharged    int                      `json:"discharged"`
	Unknowns      int                      `json:"solver_unknowns"`
	SolverErrors  int                      `json:"solver_errors"`
	Steps         int64                    `json:"ssa_instructions"`
	Summaries     int                      `json:"summaries"`
	EnumDecided   int                      `json:"branches_decided_by_byte_enumeration"`
	SummaryAborts int                      `json:"summary_aborts"`
	SolverTimeS   float64                  `json:"solver_time_s"`
	WallS         float64                  `json:"wall_s"`
	LoadS         float64                  `json:"load_s"`
	Funcs         []string                 `json:"functions_encoded"`
	Intrinsics    map[string]int           `json:"intrinsics_hit"`
	Cuts          map[string]int           `json:"cuts"`
	Covers        map[string]int           `json:"covers"`
	MissingCover  []string                 `json:"missing_cover,omitempty"`
	OblLabels     map[string]int           `json:"obligation_labels"`
	EndMsgs       map[string]int           `json:"end_messages"`
	Violations    []Violation              `json:"violations"`
	Samples       []map[string]interface{} `json:"samples"`
	EngineErrors  []string                 `json:"engine_errors,omitempty"`
	Params        map[string]int           `json:"params"`
	Solver        string                   `json:"solver"`
	TimedOut      bool                     `json:"timed_out"`
	MaxDepthSeen  int                      `json:"max_depth_seen"`
	InitAborts    map[string]string        `json:"init_aborts,omitempty"`
}

func main() {
	specPath := flag.String("spec", "", "harness spec JSON")
	cpuprof := flag.String("cpuprofile", "", "write cpu profile")
	flag.Parse()
	if *cpuprof != "" {
		f, _ := os.Create(*cpuprof)
		pprof.StartCPUProfile(f)
		defer pprof.StopCPUProfile()
	}
	if *specPath == "" {
		fmt.Fprintln(os.Stderr, "usage: symgo -spec spec.json")
		os.Exit(2)
	}
	spec, err := loadSpec(*specPath)
	if err != nil {
		fmt.Fprintln(os.Stderr, "spec:", err)
		os.Exit(2)
	}
	t0 := time.Now()
	P, entry, err := loadProgram(spec)
	if err != nil {
		fmt.Fprintln(os.Stderr, "load:", err)
		res := Result{ID: spec.ID, Entry: spec.Entry, Verdict: "inconclusive", Reasons: []string{"load: " + err.Error()}}
		writeResult(spec, &res)
		os.Exit(2)
	}
	loadS := time.Since(t0).Seconds()
	sets := spec.ParamSets
	if len(sets) == 0 {
		sets = []map[string]int{spec.Params}
	}
	var all []*Result
	worst := 0
	for _, ps := range sets {
		spec.Params = ps
		t1 := time.Now()
		res := explore(P, entry, spec)
		res.LoadS = loadS
		res.WallS = time.Since(t1).Seconds()
		all = append(all, res)
		fmt.Printf("%s %s %v: %s paths=%d obligations=%d/%d queries=%d violations=%d wall=%.1fs %v\n", spec.ID, spec.Entry, ps, res.Verdict, res.Paths, res.Discharged, res.Obligations, res.Queries, len(res.Violations), res.WallS, res.Reasons)
		switch res.Verdict {
		case "violation":
			if worst < 1 {
				worst = 1
			}
		case "inconclusive":
			worst = 2
		}
	}
	b, _ := json.MarshalIndent(all, "", " ")
	if spec.Out != "" {
		os.WriteFile(spec.Out, b, 0o644)
	} else {
		os.Stdout.Write(b)
	}
	pprof.StopCPUProfile()
	os.Exit(worst)
}

func writeResult(spec *Spec, res *Result) {
	b, _ := json.MarshalIndent([]*Result{res}, "", " ")
	if spec.Out != "" {
		os.WriteFile(spec.Out, b, 0o644)
	} else {
		os.Stdout.Write(b)
	}
}

func explore(P *Program, entry *ssa.Function, spec *Spec) *Result {
	n := spec.Workers
	sched := NewScheduler(n, time.Duration(spec.TimeLimitSec)*time.Second, spec.PathCap)
	sched.push(0, nil)
	execs := make([]*Exec, n)
	var wg sync.WaitGroup
	for i := 0; i < n; i++ {
		e, err := NewExec(P, i, sched)
		if err != nil {
			fmt.Fprintln(os.Stderr, "solver start:", err)
			os.Exit(2)
		}
		execs[i] = e
		wg.Add(1)
		go func(e *Exec) {
			defer wg.Done()
			defer e.solver.Close()
			for {
				prefix, ok := sched.next(e.id)
				if !ok {
					return
				}
				out := e.runPath(prefix, entry)
				e.stats.Paths++
				e.stats.PathsByEnd[out.end]++
				if out.msg != "" && out.end != "done" {
					m := out.end + ": " + out.msg
					if len(m) > 300 {
						m = m[:300]
					}
					e.endMsgs[m]++
				}
				if e.pathObl > 0 && (out.end == "done" || out.end == "panic" || out.end == "violation-stop") {
					e.stats.NontrivPaths++
				}
				if len(e.samples) < 3 && out.end == "done" {
					e.samples = append(e.samples, e.samplePath(out))
				}
				if e.maxDepthSeen > e.maxDepthAll {
					e.maxDepthAll = e.maxDepthSeen
				}
			}
		}(e)
	}
	wg.Wait()
	res := &Result{ID: spec.ID, Entry: spec.Entry, PathsByEnd: map[string]int{}, Intrinsics: map[string]int{}, Cuts: map[string]int{}, Covers: map[string]int{}, OblLabels: map[string]int{}, EndMsgs: map[string]int{}, Params: spec.Params, Solver: spec.Solver}
	funcs := map[string]bool{}
	for _, e := range execs {
		res.Paths += e.stats.Paths
		for k, v := range e.stats.PathsByEnd {
			res.PathsByEnd[k] += v
		}
		res.Nontrivial += e.stats.NontrivPaths
		res.Branches += e.stats.Branches
		res.Queries += e.stats.Queries
		res.Obligations += e.stats.Obligations
		res.Discharged += e.stats.Discharged
		res.Unknowns += e.stats.Unknowns
		res.SolverErrors += e.solver.Errors
		res.Steps += e.stats.Steps
		res.Summaries += e.stats.Summaries
		res.EnumDecided += e.stats.EnumDecided
		res.SummaryAborts += e.stats.SummaryAborts
		res.SolverTimeS += e.solver.Time.Seconds()
		for k := range e.funcsHit {
			funcs[k] = true
		}
		for k, v := range e.intrHit {
			res.Intrinsics[k] += v
		}
		for k, v := range e.cuts {
			res.Cuts[k] += v
		}
		for k, v := range e.covers {
			res.Covers[k] += v
		}
		for k, v := range e.oblLabels {
			res.OblLabels[k] += v
		}
		for k, v := range e.endMsgs {
			res.EndMsgs[k] += v
		}
		res.Violations = append(res.Violations, e.violations...)
		for k, v := range e.initAborts {
			if res.InitAborts == nil {
				res.InitAborts = map[string]string{}
			}
			res.InitAborts[k] = v
		}
		if len(res.Samples) < 6 {
			res.Samples = append(res.Samples, e.samples...)
		}
		res.EngineErrors = append(res.EngineErrors, e.engineErrs...)
		if e.maxDepthAll > res.MaxDepthSeen {
			res.MaxDepthSeen = e.maxDepthAll
		}
	}
	for k := range funcs {
		res.Funcs = append(res.Funcs, k)
	}
	sort.Strings(res.Funcs)
	res.TimedOut = sched.timedOut
	// verdict
	newViol := 0
	for _, v := range res.Violations {
		if v.Known == "" {
			newViol++
		}
	}
	var reasons []string
	if sched.timedOut {
		reasons = append(reasons, fmt.Sprintf("time/path limit reached with %d prefixes pending", sched.pending()))
	}
	for _, k := range []string{"unsupported", "bound", "engine-error", "obligation-unknown"} {
		if res.PathsByEnd[k] > 0 {
			reasons = append(reasons, fmt.Sprintf("%d paths ended %s", res.PathsByEnd[k], k))
		}
	}
	if res.SolverErrors > 0 {
		reasons = append(reasons, fmt.Sprintf("%d solver error lines", res.SolverErrors))
	}
	if len(res.EngineErrors) > 0 {
		reasons = append(reasons, "engine errors")
	}
	for _, c := range spec.Cover {
		if res.Covers[c] == 0 {
			res.MissingCover = append(res.MissingCover, c)
		}
	}
	if len(res.MissingCover) > 0 {
		reasons = append(reasons, fmt.Sprintf("vacuity: cover labels never reached: %v", res.MissingCover))
	}
	if res.Obligations == 0 {
		reasons = append(reasons, "vacuity: no obligation reached")
	}
	switch {
	case newViol > 0:
		res.Verdict = "violation"
	case len(reasons) > 0:
		res.Verdict = "inconclusive"
	default:
		res.Verdict = "holds"
	}
	res.Reasons = reasons
	return res
}

func (e *Exec) samplePath(out pathOutcome) map[string]interface{} {
	m := map[string]interface{}{"end": out.end, "decisions": len(e.dec.prefix), "pc_terms": len(e.pc), "obligations": e.pathObl}
	r, model := e.check(nil, e.P.cfg.BranchTimeoutMs, e.pathVars)
	if r == Sat {
		disp := map[string]uint64{}
		for smt, v := range model {
			if n, ok := e.varNames[smt]; ok {
				disp[n] = v
			}
		}
		m["witness"] = disp
	}
	return m
}
