package command

// ---- FETCH / STORE: attributes, sections, partials, flag lists ----

type c10Sec struct {
	kind   int // 0 none, 1 HEADER, 2 TEXT, 3 HEADER.FIELDS, 4 HEADER.FIELDS.NOT, 5 MIME
	fields [][]byte
}

type c10Att struct {
	kind    int // index into c10AttNames; 10 = BODY[...] ; 11 = BODY.PEEK[...]
	part    []int
	sec     c10Sec
	partial bool
	off     int
	cnt     int
}

var c10AttNames = []string{"ENVELOPE", "FLAGS", "INTERNALDATE", "RFC822", "RFC822.HEADER", "RFC822.SIZE", "RFC822.TEXT", "BODY", "BODYSTRUCTURE", "UID"}

// number prints a decimal number of 1..nd symbolic digits (no leading zero unless the number is 0 and zeroOK).
func (p *c10Printer) number(maxDigits int, zeroOK bool) int {
	nd := 1 + vsymChoice("numDigits", maxDigits)
	v := 0
	for i := 0; i < nd; i++ {
		d := vsymByte("digit")
		vsymAssume(d <= '9')
		if i == 0 && (nd > 1 || !zeroOK) {
			vsymAssume(d >= '1')
		} else {
			vsymAssume(d >= '0')
		}
		p.b = append(p.b, d)
		v = v*10 + (int(d) - int('0'))
	}
	return v
}

func (p *c10Printer) headerList(sec *c10Sec) {
	p.raw(" (")
	n := 1 + vsymChoice("nFields", 2)
	for i := 0; i < n; i++ {
		if i > 0 {
			p.raw(" ")
		}
		f := vsymBytes("field", 1+vsymParam("flen"))
		p.astring(f, 0)
		sec.fields = append(sec.fields, f)
	}
	p.raw(")")
}

// sectionText: fam 0 offers the texts without arguments, fam 1 the header-list forms.
func (p *c10Printer) sectionText(sec *c10Sec, allowMIME bool) {
	if vsymParam("fam") == 1 {
		if vsymChoice("secNot", 2) == 0 {
			p.kw("HEADER.FIELDS")
			sec.kind = 3
		} else {
			p.kw("HEADER.FIELDS.NOT")
			sec.kind = 4
		}
		p.headerList(sec)
		return
	}
	n := 2
	if allowMIME {
		n = 3
	}
	switch vsymChoice("secText", n) {
	case 0:
		p.kw("HEADER")
		sec.kind = 1
	case 1:
		p.kw("TEXT")
		sec.kind = 2
	case 2:
		p.kw("MIME")
		sec.kind = 5
	}
}

// fetchAttSmall (fam 2, attribute lists): UID, FLAGS or BODY[] / BODY.PEEK[] / BODY[TEXT] / BODY.PEEK[TEXT] with an
// optional partial of one- or two-digit numbers - lists may name the same section several times.
func (p *c10Printer) fetchAttSmall() c10Att {
	var a c10Att
	switch vsymChoice("attSmall", 4) {
	case 0:
		a.kind = 9
		p.kw(c10AttNames[9])
		return a
	case 1:
		a.kind = 1
		p.kw(c10AttNames[1])
		return a
	case 2:
		a.kind = 10
		p.kw("BODY")
	case 3:
		a.kind = 11
		p.kw("BODY.PEEK")
	}
	p.raw("[")
	if vsymChoice("secSmall", 2) == 1 {
		p.kw("TEXT")
		a.sec.kind = 2
	}
	p.raw("]")
	if vsymChoice("partial", 2) == 1 {
		a.partial = true
		p.raw("<")
		a.off = p.number(2, true)
		p.raw(".")
		a.cnt = p.number(2, false)
		p.raw(">")
	}
	return a
}

func (p *c10Printer) fetchAtt() c10Att {
	var a c10Att
	fam := vsymParam("fam")
	if fam == 2 {
		return p.fetchAttSmall()
	}
	if fam == 1 {
		a.kind = 10 + vsymChoice("peek", 2)
	} else {
		a.kind = vsymChoice("att", 12)
	}
	if a.kind < 10 {
		p.kw(c10AttNames[a.kind])
		return a
	}
	if a.kind == 10 {
		p.kw("BODY")
	} else {
		p.kw("BODY.PEEK")
	}
	p.raw("[")
	sect := 1 + vsymChoice("section", 2)
	if fam == 0 && vsymChoice("emptySection", 2) == 1 {
		sect = 0
	}
	switch sect {
	case 0: // empty
	case 1: // section-msgtext
		p.sectionText(&a.sec, false)
	case 2: // section-part ["." section-text]
		np := 1 + vsymChoice("nParts", 2)
		for i := 0; i < np; i++ {
			if i > 0 {
				p.raw(".")
			}
			a.part = append(a.part, p.number(2, false))
		}
		if fam == 1 || vsymChoice("partText", 2) == 1 {
			p.raw(".")
			p.sectionText(&a.sec, true)
		}
	}
	p.raw("]")
	if fam == 0 && vsymChoice("partial", 2) == 1 {
		a.partial = true
		p.raw("<")
		a.off = p.number(3, true)
		p.raw(".")
		a.cnt = p.number(3, false)
		p.raw(">")
	}
	return a
}

func c10SecEq(got BodySection, want c10Sec) bool {
	switch want.kind {
	case 0:
		return got == nil
	case 1:
		_, ok := got.(*BodySectionHeader)
		return ok
	case 2:
		_, ok := got.(*BodySectionText)
		return ok
	case 5:
		_, ok := got.(*BodySectionMIME)
		return ok
	}
	hf, ok := got.(*BodySectionHeaderFields)
	if !ok || hf.Negate != (want.kind == 4) || len(hf.Fields) != len(want.fields) {
		return false
	}
	eq := true
	for i := range want.fields {
		eq = vsymAnd(eq, hf.Fields[i] == string(want.fields[i]))
	}
	return eq
}

func c10AttEq(got FetchAttribute, want c10Att) bool {
	switch want.kind {
	case 0:
		_, ok := got.(*FetchAttributeEnvelope)
		return ok
	case 1:
		_, ok := got.(*FetchAttributeFlags)
		return ok
	case 2:
		_, ok := got.(*FetchAttributeInternalDate)
		return ok
	case 3:
		_, ok := got.(*FetchAttributeRFC822)
		return ok
	case 4:
		_, ok := got.(*FetchAttributeRFC822Header)
		return ok
	case 5:
		_, ok := got.(*FetchAttributeRFC822Size)
		return ok
	case 6:
		_, ok := got.(*FetchAttributeRFC822Text)
		return ok
	case 7:
		_, ok := got.(*FetchAttributeBody)
		return ok
	case 8:
		_, ok := got.(*FetchAttributeBodyStructure)
		return ok
	case 9:
		_, ok := got.(*FetchAttributeUID)
		return ok
	}
	bs, ok := got.(*FetchAttributeBodySection)
	if !ok || bs.Peek != (want.kind == 11) {
		return false
	}
	if want.partial {
		if bs.Partial == nil || !vsymAnd(bs.Partial.Offset == int64(want.off), bs.Partial.Count == int64(want.cnt)) {
			return false
		}
	} else if bs.Partial != nil {
		return false
	}
	if len(want.part) == 0 {
		return c10SecEq(bs.Section, want.sec)
	}
	bp, ok := bs.Section.(*BodySectionPart)
	if !ok || len(bp.Part) != len(want.part) {
		return false
	}
	eq := true
	for i := range want.part {
		eq = vsymAnd(eq, bp.Part[i] == want.part[i])
	}
	return vsymAnd(eq, c10SecEq(bp.Section, want.sec))
}

// unwrapUID checks the UID wrapper and returns the inner payload.
func c10Unwrap(cmd Command, uid bool) Payload {
	if !uid {
		return cmd.Payload
	}
	u, ok := cmd.Payload.(*UID)
	vsymAssert(ok, "UID prefix yields a UID command")
	if !ok {
		return nil
	}
	return u.Command
}

// VerifC10Fetch: FETCH / UID FETCH with a macro, a single attribute or a parenthesised attribute list.
func VerifC10Fetch() {
	p := &c10Printer{}
	tag := c10Tag(p)
	p.raw(" ")
	uid := vsymChoice("uid", 2) == 1
	if uid {
		p.kw("UID")
		p.raw(" ")
	}
	p.kw("FETCH")
	p.raw(" ")
	set := p.fixedOrSymSet()
	p.raw(" ")
	natt := vsymParam("natt")
	var want []c10Att
	macro := -1
	if natt == 0 {
		macro = vsymChoice("macro", 3)
		p.kw([]string{"ALL", "FULL", "FAST"}[macro])
	} else if natt == 1 && vsymChoice("parens", 2) == 0 {
		want = append(want, p.fetchAtt())
	} else {
		p.raw("(")
		for i := 0; i < natt; i++ {
			if i > 0 {
				p.raw(" ")
			}
			want = append(want, p.fetchAtt())
		}
		p.raw(")")
	}
	p.raw("\r\n")
	cmd, err := c10Parse(p)
	vsymAssert(err == nil, "a syntactically valid FETCH parses")
	if err != nil {
		return
	}
	vsymAssert(cmd.Tag == tag, "tag is what was written")
	pl, ok := c10Unwrap(cmd, uid).(*Fetch)
	vsymAssert(ok, "FETCH payload")
	if !ok {
		return
	}
	vsymAssert(c10SameSeqSet(pl.SeqSet, set), "FETCH sequence set")
	if macro >= 0 {
		vsymAssert(len(pl.Attributes) == 1, "one macro attribute")
		if len(pl.Attributes) == 1 {
			switch macro {
			case 0:
				_, ok = pl.Attributes[0].(*FetchAttributeAll)
			case 1:
				_, ok = pl.Attributes[0].(*FetchAttributeFull)
			case 2:
				_, ok = pl.Attributes[0].(*FetchAttributeFast)
			}
			vsymAssert(ok, "FETCH macro")
		}
		return
	}
	vsymAssert(len(pl.Attributes) == len(want), "no fetch attribute dropped or added")
	if len(pl.Attributes) != len(want) {
		return
	}
	for i := range want {
		vsymAssert(c10AttEq(pl.Attributes[i], want[i]), "fetch attribute (with section and partial) in order")
	}
}

// ---- STORE ----

var c10SysFlags = []string{"\\Answered", "\\Flagged", "\\Deleted", "\\Seen", "\\Draft"}

// flag prints a system flag (symbolic letter case), a keyword atom or a flag extension; returns the bytes written.
func (p *c10Printer) flag() []byte {
	start := len(p.b)
	switch k := vsymChoice("flagKind", 7); k {
	case 0, 1, 2, 3, 4:
		p.kw(c10SysFlags[k])
	default:
		if k == 6 {
			p.raw("\\")
		}
		n := 1 + vsymChoice("kwLen", 2)
		a := vsymBytes("kwAtom", n)
		for _, c := range a {
			vsymAssume(c10AtomChar(c))
			vsymAssume(c != '[') // as for astring atoms: '[' is outside the grammar subset the server accepts
		}
		if k == 6 && n == 6 { // \Recent is refused in this context (not generated at this bound anyway)
			vsymAssume(false)
		}
		p.b = append(p.b, a...)
	}
	return p.b[start:len(p.b):len(p.b)]
}

func VerifC10Store() {
	p := &c10Printer{}
	tag := c10Tag(p)
	p.raw(" ")
	uid := vsymChoice("uid", 2) == 1
	if uid {
		p.kw("UID")
		p.raw(" ")
	}
	p.kw("STORE")
	p.raw(" ")
	set := p.fixedOrSymSet()
	p.raw(" ")
	action := vsymChoice("action", 3)
	p.raw([]string{"+", "-", ""}[action])
	p.kw("FLAGS")
	silent := vsymChoice("silent", 2) == 1
	if silent {
		p.kw(".SILENT")
	}
	p.raw(" ")
	nf := vsymParam("nflags")
	parens := nf == 0 || vsymChoice("parens", 2) == 1
	if parens {
		p.raw("(")
	}
	var want [][]byte
	for i := 0; i < nf; i++ {
		if i > 0 {
			p.raw(" ")
		}
		want = append(want, p.flag())
	}
	if parens {
		p.raw(")")
	}
	p.raw("\r\n")
	cmd, err := c10Parse(p)
	vsymAssert(err == nil, "a syntactically valid STORE parses")
	if err != nil {
		return
	}
	vsymAssert(cmd.Tag == tag, "tag is what was written")
	pl, ok := c10Unwrap(cmd, uid).(*Store)
	vsymAssert(ok, "STORE payload")
	if !ok {
		return
	}
	vsymAssert(c10SameSeqSet(pl.SeqSet, set), "STORE sequence set")
	vsymAssert(pl.Action == []StoreAction{StoreActionAddFlags, StoreActionRemFlags, StoreActionSetFlags}[action], "STORE action")
	vsymAssert(pl.Silent == silent, "STORE .SILENT")
	vsymAssert(len(pl.Flags) == len(want), "no flag dropped or added")
	if len(pl.Flags) != len(want) {
		return
	}
	for i := range want {
		vsymAssert(pl.Flags[i] == string(want[i]), "flag byte-exact and in order")
	}
}

// fixedOrSymSet prints "2:*" unless the symset parameter asks for a symbolic set (the set grammar itself is
// exercised by the COPY/MOVE/UID EXPUNGE/SEARCH harnesses, which share ParseSeqSet).
func (p *c10Printer) fixedOrSymSet() []SeqRange {
	if vsymParam("symset") == 1 {
		return p.seqSet(1)
	}
	p.raw("2:*")
	return []SeqRange{{Begin: 2, End: SeqNumValueAsterisk}}
}
