package sqlite3

import "strings"

func c18Hex(c byte) (byte, bool) {
	switch {
	case c >= '0' && c <= '9':
		return c - '0', true
	case c >= 'a' && c <= 'f':
		return c - 'a' + 10, true
	case c >= 'A' && c <= 'F':
		return c - 'A' + 10, true
	}
	return 0, false
}

// VerifC18DBPath: "each user has its own database".  The per-user database is opened through an SQLite URI built
// from the user's path by getDatabaseConn.  SQLite (sqlite.org/uri.html, 3.1-3.3) takes as the file name what
// follows "file:" up to the first '?' or '#', with every %HH escape decoded.  For every path (n arbitrary non-NUL
// bytes) that file name must be the path itself - so two users with different paths never share a file - and the
// connection parameters must survive.
func VerifC18DBPath() {
	n := vsymParam("n")
	p := vsymBytes("path", n)
	for _, c := range p {
		vsymAssume(c != 0)
	}
	conn := getDatabaseConn("", "", string(p))
	vsymAssert(strings.HasPrefix(conn, "file:"), "the database is opened through a file: URI")
	if !strings.HasPrefix(conn, "file:") {
		return
	}
	rest := conn[5:]
	var name []byte
	i := 0
	for i < len(rest) && rest[i] != '?' && rest[i] != '#' {
		if rest[i] == '%' && i+2 < len(rest) {
			hi, ok1 := c18Hex(rest[i+1])
			lo, ok2 := c18Hex(rest[i+2])
			if ok1 && ok2 {
				name = append(name, hi<<4|lo)
				i += 3
				continue
			}
		}
		name = append(name, rest[i])
		i++
	}
	vsymCover("uri-parsed")
	vsymAssert(len(name) == len(p), "the file SQLite opens is the one the user's path names (same length)")
	if len(name) == len(p) {
		eq := true
		for j := range p {
			eq = vsymAnd(eq, name[j] == p[j])
		}
		vsymAssert(eq, "the file SQLite opens is the one the user's path names")
	}
	vsymAssert(rest[i:] == "?cache=shared&_fk=1&_journal=WAL", "the connection parameters follow the file name unchanged")
}
