#!/usr/bin/env python3
"""Regenerate /verif/MANIFEST.json from checks.py (claimed properties) and na.py-style table below."""
import json, os, sys
ROOT = os.path.dirname(os.path.dirname(os.path.abspath(__file__)))
sys.path.insert(0, ROOT)
import checks as CH

NA = {
    "C08": "SQLite executes the SQL (C code behind cgo): deciding 'same result as a relational model' would need a model of SQL, not an encoding of gluon; the encodable necessary condition (statement well-formedness/binding/chunking) is checked under C03 and is not offered as a decision of C08",
    "C09": "AES-GCM sealing, LZ4 framing, file I/O and io.Pipe goroutines: loops over whole contents with no separable arithmetic kernel; symbolic crypto/compression is out of reach of bit-blasting and reader/writer concurrency is not encodable by a sequential executor",
    "C19": "data races, lock-order inversions and goroutine leaks quantify over every scheduler interleaving and the Go memory model; the engine's goroutine model is cooperative (control changes hands only at blocking operations, every other goroutine runs to quiescence), which is enough to run the queue and the IDLE sender from their real code and to see dead-locks and leaks on those schedules (C02 queue, C01 idle harnesses), but it explores no pre-emptive interleaving and has no memory model, so it cannot decide the absence of races or dead-locks",
}
PENDING = "check not built yet in this round (see DESIGN.md section 4 for the planned harness)"

props = [json.loads(l) for l in open(os.path.join(ROOT, "properties.jsonl"))]
checks = []
na = []
for p in props:
    pid = p["id"]
    if pid in CH.CHECKS:
        c = CH.CHECKS[pid]
        checks.append({
            "property_id": pid,
            "quick_cmd": "./check %s --tier quick" % pid,
            "thorough_cmd": "./check %s --tier thorough" % pid,
            "evidence_file": "/verif/evidence/%s.json" % pid,
            "replay_cmd_template": "./check replay {path}",
            "engine": "symgo",
            "level_claimed": {"category": "other", "text": c.get("level_text", "bounded symbolic execution of the real go/ssa code with SMT-decided obligations; holds for every input within the stated bounds, counterexamples replayed natively") , "design_ref": c.get("design_ref", "DESIGN.md section 4 (" + pid + ")")},
            "level_note": c.get("level_note", "trusted: go/ssa lowering, the symgo executor and its intrinsic models, the SMT solver, the harness stubs; outside the claim: " + "; ".join(c.get("outside", []))),
            "technique": c.get("technique", "bounded symbolic execution of go/ssa + SMT (QF_BV: cvc5, z3), native replay of models"),
        })
    elif pid in NA:
        na.append({"property_id": pid, "reason": NA[pid]})
    else:
        na.append({"property_id": pid, "reason": PENDING})
man = {
    "version": 1,
    "setup_cmd": "cd /verif/engine && GOFLAGS=-mod=mod GOPROXY=off GOSUMDB=off GOTOOLCHAIN=local go build -o ../bin/symgo . && GOFLAGS=-mod=mod GOPROXY=off GOSUMDB=off GOTOOLCHAIN=local go build -o ../bin/genstub ./genstub && cd /verif && ./check selftest",
    "hooks": {"guard": "verif", "enable": "none needed: harness code is injected with go/packages overlays and `go test -overlay` from /verif/harness; no file of /repo is modified", "baseline_off_cmd": json.load(open("/root/.vp/BASELINE.json"))["cmd"], "source_commits": [], "add_only": True},
    "engines": [{"name": "symgo", "path": "/verif/engine", "serves_properties": sorted(CH.CHECKS), "kind_free_text": "symbolic executor for go/ssa (fork by re-execution, concrete heap shape, bit-vector scalars) driving cvc5/z3 over pipes"}],
    "checks": checks,
    "not_applicable": na,
    "notes": "exit codes of ./check: 0 holds within stated bounds, 1 reproduced violation, 2 inconclusive (bound exceeded, unsupported path, solver unknown, vacuity, build failure)",
}
json.dump(man, open(os.path.join(ROOT, "MANIFEST.json"), "w"), indent=1)
print("claimed:", [c["property_id"] for c in checks], "n/a:", [n["property_id"] for n in na])
