#!/bin/bash
# Runs the repository's test suite the way the pinned baseline does (go test -json ./...) on /repo's current tree and
# compares with the baseline's stable_pass list; stable tests that did not pass are re-run individually (the
# integration tests in ./tests are timing dependent under load).  Exit 0 iff every stable test passes.
export GOFLAGS=-mod=mod GOPROXY=off GOSUMDB=off GOTOOLCHAIN=local
out=${1:-/tmp/baseline_run.json}
cd /repo && go test -mod=mod -json -vet=off -count=1 -timeout 25m ./... > "$out" 2>/dev/null
python3 - "$out" <<'PY'
import json,sys,subprocess,os
stable=set(json.load(open('/root/.vp/BASELINE.json'))['stable_pass'])
res={}
for l in open(sys.argv[1]):
    try: e=json.loads(l)
    except Exception: continue
    if e.get('Test') and e.get('Action') in ('pass','fail','skip'):
        res[e['Package']+'::'+e['Test']]=e['Action']
bad=[t for t in sorted(stable) if res.get(t)!='pass']
print("stable tests: %d, passed in the full run: %d, to re-run individually: %d"%(len(stable), len(stable)-len(bad), len(bad)))
still=[]
for t in bad:
    pkg,name=t.split('::')
    ok=False
    for k in range(3):
        r=subprocess.run(['go','test','-mod=mod','-vet=off','-count=1','-timeout','120s','-run','^%s$'%name,pkg],cwd='/repo',stdout=subprocess.PIPE,stderr=subprocess.STDOUT,text=True)
        if r.returncode==0: ok=True; break
    print("  %s: first run %s, individually %s"%(t,res.get(t,'not reached'),'PASS' if ok else 'FAIL'))
    if not ok: still.append(t)
print("RESULT: %s"%("all stable tests pass" if not still else "FAILING: "+" ".join(still)))
sys.exit(1 if still else 0)
PY
