package command

import (
	"strconv"
	"strings"

	"github.com/ProtonMail/gluon/rfcparser"
)

// selftest: concrete command lines (taken from the repository's own parser tests and from RFC 3501 examples) are
// parsed under the engine and natively; the digests must agree line by line (validation of the translator).
var verifSelftestLines = []string{
	"a001 LOGIN SMITH SESAME\r\n",
	"a001 login \"user name\" {6}\r\nsecret\r\n",
	"A142 SELECT INBOX\r\n",
	"A932 EXAMINE blurdybloop\r\n",
	"A003 CREATE owatagusiam/\r\n",
	"A683 DELETE blurdybloop\r\n",
	"A683 RENAME blurdybloop sarasoop\r\n",
	"A002 SUBSCRIBE #news.comp.mail.mime\r\n",
	"A002 UNSUBSCRIBE #news.comp.mail.mime\r\n",
	"A101 LIST \"\" \"\"\r\n",
	"A102 LIST #news.comp.mail.misc \"\"\r\n",
	"A202 list ~/Mail/ %\r\n",
	"A002 LSUB \"#news.\" \"comp.mail.*\"\r\n",
	"A042 STATUS blurdybloop (UIDNEXT MESSAGES)\r\n",
	"A003 APPEND saved-messages (\\Seen) {10}\r\n0123456789\r\n",
	"A003 APPEND saved-messages \"01-Jan-2009 10:11:12 +0100\" {3}\r\nabc\r\n",
	"FXXZ CHECK\r\n",
	"A341 CLOSE\r\n",
	"A202 EXPUNGE\r\n",
	"A282 SEARCH FLAGGED SINCE 1-Feb-1994 NOT FROM \"Smith\"\r\n",
	"A283 SEARCH TEXT \"string not in mailbox\"\r\n",
	"A284 SEARCH CHARSET UTF-8 TEXT {6}\r\nXXXXXX\r\n",
	"A285 UID SEARCH OR SEEN (UID 1:* LARGER 100) 2,4:7\r\n",
	"A654 FETCH 2:4 (FLAGS BODY[HEADER.FIELDS (DATE FROM)])\r\n",
	"A655 fetch 1 body.peek[1.2.MIME]<0.100>\r\n",
	"A656 FETCH * FULL\r\n",
	"A657 UID FETCH 4827313:4828442 FLAGS\r\n",
	"A003 STORE 2:4 +FLAGS (\\Deleted)\r\n",
	"A004 store 1 -flags.silent \\Seen custom\r\n",
	"A003 COPY 2:4 MEETING\r\n",
	"a UID MOVE 42:69 foo\r\n",
	"A003 UID EXPUNGE 3000:3002\r\n",
	"a023 LOGOUT\r\n",
	"abcd CAPABILITY\r\n",
	"a002 NOOP\r\n",
	"A001 IDLE\r\n",
	"a1 ID (\"name\" \"sodr\" \"version\" NIL)\r\n",
	"a1 ID NIL\r\n",
	"a1 UNSELECT\r\n",
	// rejected lines
	"a1 FETCH 0 FLAGS\r\n",
	"a1 STORE 1 FLAGS (\\Recent)\r\n",
	"a1 SEARCH BEFORE 1-Foo-2020\r\n",
	"a1 BOGUS\r\n",
	"a1 LOGIN \"unterminated\r\n",
	"a1 FETCH 1 BODY[3.TEXT]<5.0>\r\n",
}

func verifDigestSet(set []SeqRange) string {
	var sb strings.Builder
	for _, r := range set {
		sb.WriteString(strconv.Itoa(int(r.Begin)))
		sb.WriteString(":")
		sb.WriteString(strconv.Itoa(int(r.End)))
		sb.WriteString(",")
	}
	return sb.String()
}

func verifDigestPayload(p Payload) string {
	switch v := p.(type) {
	case nil:
		return "nil"
	case *Login:
		return "login|" + v.UserID + "|" + v.Password
	case *Select:
		return "select|" + v.Mailbox
	case *Examine:
		return "examine|" + v.Mailbox
	case *Create:
		return "create|" + v.Mailbox
	case *Delete:
		return "delete|" + v.Mailbox
	case *Rename:
		return "rename|" + v.From + "|" + v.To
	case *Subscribe:
		return "sub|" + v.Mailbox
	case *Unsubscribe:
		return "unsub|" + v.Mailbox
	case *List:
		return "list|" + v.Mailbox + "|" + v.ListMailbox
	case *LSub:
		return "lsub|" + v.Mailbox + "|" + v.LSubMailbox
	case *Status:
		return "status|" + v.Mailbox + "|" + strconv.Itoa(len(v.Attributes))
	case *Append:
		return "append|" + v.Mailbox + "|" + strings.Join(v.Flags, ",") + "|" + strconv.FormatInt(v.DateTime.Unix(), 10) + "|" + string(v.Literal)
	case *Search:
		return "search|" + v.Charset + "|" + strconv.Itoa(len(v.Keys))
	case *Fetch:
		return "fetch|" + verifDigestSet(v.SeqSet) + "|" + strconv.Itoa(len(v.Attributes))
	case *Store:
		return "store|" + verifDigestSet(v.SeqSet) + "|" + strconv.Itoa(int(v.Action)) + "|" + strings.Join(v.Flags, ",") + "|" + strconv.FormatBool(v.Silent)
	case *Copy:
		return "copy|" + verifDigestSet(v.SeqSet) + "|" + v.Mailbox
	case *Move:
		return "move|" + verifDigestSet(v.SeqSet) + "|" + v.Mailbox
	case *UID:
		return "uid|" + verifDigestPayload(v.Command)
	case *UIDExpunge:
		return "uidexpunge|" + verifDigestSet(v.SeqSet)
	case *IDSet:
		return "idset|" + strconv.Itoa(len(v.Values)) + "|" + v.Values["name"] + "|" + v.Values["version"]
	case *IDGet:
		return "idget"
	case *Check, *Close, *Expunge, *Logout, *Capability, *Noop, *Idle, *Unselect, *StartTLS, *Done:
		return "plain"
	}
	return "other"
}

func VerifSelftestCommands() {
	for _, line := range verifSelftestLines {
		r := &verifReader{buf: []byte(line)}
		p := NewParser(rfcparser.NewScannerWithReader(r))
		cmd, err := p.Parse()
		d := cmd.Tag + "|" + verifDigestPayload(cmd.Payload)
		if err != nil {
			d += "|ERR"
		}
		vsymLog("digest", d)
	}
	vsymAssert(true, "selftest ran")
}
