package state

import (
	"context"

	"github.com/ProtonMail/gluon/db"
	"github.com/ProtonMail/gluon/imap"
	"github.com/ProtonMail/gluon/internal/utils"
	"github.com/ProtonMail/gluon/limits"
	"github.com/ProtonMail/gluon/store"
	"github.com/sirupsen/logrus"
)

// ---- flag helpers: a small universe of flags encoded as a bit mask for comparisons ----

const (
	vfSeen    = 1
	vfDeleted = 2
	vfFlagged = 4
	vfRecent  = 8
	vfOther   = 16
)

func verifFlagSet(mask int) imap.FlagSet {
	fs := imap.NewFlagSet()
	if mask&vfSeen != 0 {
		fs.AddToSelf(imap.FlagSeen)
	}
	if mask&vfDeleted != 0 {
		fs.AddToSelf(imap.FlagDeleted)
	}
	if mask&vfFlagged != 0 {
		fs.AddToSelf(imap.FlagFlagged)
	}
	if mask&vfRecent != 0 {
		fs.AddToSelf(imap.FlagRecent)
	}
	return fs
}

func verifFlagMask(fs imap.FlagSet) int {
	m := 0
	for k := range fs {
		switch k {
		case imap.FlagSeenLowerCase:
			m |= vfSeen
		case imap.FlagDeletedLowerCase:
			m |= vfDeleted
		case imap.FlagFlaggedLowerCase:
			m |= vfFlagged
		case imap.FlagRecentLowerCase:
			m |= vfRecent
		default:
			m |= vfOther
		}
	}
	return m
}

// ---- minimal user / database stubs for harnesses that drive a directly constructed State ----

type verifUser struct {
	db         db.Client
	remote     Connector
	st         *store.WriteControlledStore
	recovery   db.MailboxIDPair
	uidValSeq  uint32
	states     []*State
	pending    [][]Update // per state: updates queued for it (FIFO), same order as states
	hashes     *utils.MessageHashesMap
	delimiter  string
	queueFails bool
}

func (u *verifUser) GetUserID() string                      { return "verif-user" }
func (u *verifUser) GetDelimiter() string                   { return u.delimiter }
func (u *verifUser) GetDB() db.Client                       { return u.db }
func (u *verifUser) GetRemote() Connector                   { return u.remote }
func (u *verifUser) GetStore() *store.WriteControlledStore  { return u.st }
func (u *verifUser) GetRecoveryMailboxID() db.MailboxIDPair { return u.recovery }
func (u *verifUser) ReleaseState(ctx context.Context, st *State) error {
	return nil
}
func (u *verifUser) GenerateUIDValidity() (imap.UID, error) {
	u.uidValSeq++
	return imap.UID(u.uidValSeq), nil
}
func (u *verifUser) GetRecoveredMessageHashesMap() *utils.MessageHashesMap { return u.hashes }

// QueueOrApplyStateUpdate mirrors backend.StateUserInterfaceImpl: the originating state (named by the
// context) applies the updates immediately, every other state gets them queued (here: in u.pending).
func (u *verifUser) QueueOrApplyStateUpdate(ctx context.Context, tx db.Transaction, updates ...Update) error {
	stateID, ok := GetStateIDFromContext(ctx)
	for i, st := range u.states {
		if ok && st.StateID == stateID {
			for _, update := range updates {
				if !update.Filter(st) {
					continue
				}
				if err := update.Apply(ctx, tx, st); err != nil {
					return err
				}
			}
		} else {
			u.pending[i] = append(u.pending[i], updates...)
		}
	}
	return nil
}

func (u *verifUser) addState(st *State) {
	u.states = append(u.states, st)
	u.pending = append(u.pending, nil)
}

// verifMiniDB: a database whose only supported write is clearing recent flags (what flushResponses needs).
type verifMiniDB struct {
	cleared []imap.InternalMessageID
}

type verifMiniTx struct {
	verifTxBase
	d *verifMiniDB
}

func (d *verifMiniDB) Init(ctx context.Context, generator imap.UIDValidityGenerator) error {
	return nil
}
func (d *verifMiniDB) Close() error { return nil }
func (d *verifMiniDB) Read(ctx context.Context, op func(context.Context, db.ReadOnly) error) error {
	return op(ctx, &verifMiniTx{d: d})
}
func (d *verifMiniDB) Write(ctx context.Context, op func(context.Context, db.Transaction) error) error {
	return op(ctx, &verifMiniTx{d: d})
}
func (t *verifMiniTx) ClearRecentFlagInMailboxOnMessage(ctx context.Context, mboxID imap.InternalMailboxID, messageID imap.InternalMessageID) error {
	t.d.cleared = append(t.d.cleared, messageID)
	return nil
}

// verifNewState builds a State the way NewState does, minus the goroutine-backed update queue.
func verifNewState(user UserInterface, id StateID) *State {
	return &State{
		user:       user,
		StateID:    id,
		doneCh:     make(chan struct{}),
		delimiter:  "/",
		imapLimits: limits.DefaultLimits(),
		log:        logrus.WithField("pkg", "gluon/state"),
	}
}
