package state

import (
	"github.com/ProtonMail/gluon/db"
	"strings"

	"github.com/ProtonMail/gluon/imap"
	"github.com/ProtonMail/gluon/limits"
)

// VerifC14Paths: listSuperiors(x) = all proper delimiter-prefixes of x in order, for every name of bounded length over
// an alphabet that contains the delimiter.
func VerifC14Paths() {
	n := vsymParam("n")
	delim := []string{"/", "."}[vsymChoice("delim", 2)]
	b := vsymBytes("name", n)
	for i := range b {
		isD := b[i] == delim[0]
		vsymAssume(vsymOr(isD, vsymOr(b[i] == 'a', b[i] == 'b')))
	}
	name := string(b)
	got := listSuperiors(name, delim)
	var want []string
	for i := 0; i < n; i++ {
		if b[i] == delim[0] {
			want = append(want, name[:i])
		}
	}
	vsymAssert(len(got) == len(want), "one superior per delimiter occurrence")
	if len(got) == len(want) {
		for i := range want {
			vsymAssert(got[i] == want[i], "superiors are the proper delimiter-prefixes in order")
		}
	}
	// listInferiors(parent, names) = names having parent as a superior
	names := []string{name, "a", "a" + delim + "b"}
	inf := listInferiors("a", delim, names)
	cnt := 0
	for _, nm := range names {
		has := false
		for _, s := range listSuperiors(nm, delim) {
			if s == "a" {
				has = true
			}
		}
		if has {
			cnt++
		}
	}
	vsymAssert(len(inf) == cnt, "inferiors are exactly the names below the parent")
}

var c14Names = []string{"a", "a/b", "a/b/c", "b", "a/", "/a", "a//b", "INBOX", "inbox", "b/c", "a/a"}

type c14Ref struct {
	names map[string]bool
	subs  map[string]bool // subscribed (existing or deleted-but-subscribed)
}

func c14Superiors(name string) []string {
	var out []string
	for i := 0; i < len(name); i++ {
		if name[i] == '/' {
			out = append(out, name[:i])
		}
	}
	return out
}

// VerifC14Namespace: CREATE / DELETE / RENAME / SUBSCRIBE / UNSUBSCRIBE histories against the reference hierarchy model.
func VerifC14Namespace() {
	k := vsymParam("k")
	w := verifNewWorld(limits.DefaultLimits())
	w.db.AddBox("INBOX", "mb-inbox", 2)
	st := w.newState(1)
	ctx := ctxFor(st)
	ref := c14Ref{names: map[string]bool{"INBOX": true}, subs: map[string]bool{"INBOX": true}}
	if vsymParam("holes") == 1 {
		// an arbitrary subset of a small hierarchy exists already - also inferiors without their parents (a parent
		// deleted later, or a nested name announced by the connector)
		for i, nm := range []string{"a", "a/b", "a/b/c", "b"} {
			if vsymChoice("initial", 2) == 1 {
				w.db.AddBox(nm, imap.MailboxID("mb-i-"+nm), imap.UID(3+i))
				ref.names[nm], ref.subs[nm] = true, true
			}
		}
	}
	// C04: every mailbox object that comes into existence under a name gets a UIDVALIDITY above every value the
	// name ever had (the generator's own monotonicity is VerifC04Generator's subject: here it counts up from 100)
	w.user.uidValSeq = 100
	seenBox := map[imap.InternalMailboxID]bool{}
	maxUIDV := map[string]imap.UID{}
	for _, b := range w.db.Boxes {
		seenBox[b.ID] = true
		maxUIDV[b.Name] = b.UIDValidity
	}
	for step := 0; step < k; step++ {
		name := c14Names[vsymChoice("name", len(c14Names))]
		switch vsymChoice("op", 5) {
		case 0: // CREATE
			if strings.EqualFold(name, "INBOX") {
				vsymAssume(false) // refused by the session layer (handleCreate) before the state is reached
			}
			err := st.Create(ctx, name)
			eff := strings.TrimSuffix(name, "/")
			refuse := strings.HasPrefix(name, "/") || strings.Contains(name, "//") || ref.names[eff] || eff == ""
			if refuse {
				vsymAssert(err != nil, "CREATE of an existing / malformed / INBOX name is refused")
			} else {
				vsymAssert(err == nil, "CREATE of a fresh name succeeds")
			}
			if err == nil {
				for _, s := range c14Superiors(eff) {
					if !ref.names[s] {
						ref.names[s] = true
						ref.subs[s] = true
					}
				}
				ref.names[eff] = true
				ref.subs[eff] = true
			}
		case 1: // DELETE
			if strings.EqualFold(name, "INBOX") {
				vsymAssume(false) // refused by the session layer (handleDelete)
			}
			_, err := st.Delete(ctx, name)
			if !ref.names[name] {
				vsymAssert(err != nil, "DELETE of a missing mailbox is refused")
			} else {
				vsymAssert(err == nil, "DELETE of an existing mailbox succeeds")
			}
			if err == nil {
				delete(ref.names, name) // only that row goes away; a subscribed name stays subscribed
			}
		case 2: // RENAME name -> other
			other := c14Names[vsymChoice("newName", len(c14Names))]
			err := st.Rename(ctx, name, other)
			malformed := strings.HasPrefix(other, "/") || strings.Contains(other, "//")
			other = strings.TrimSuffix(other, "/") // as for CREATE a trailing delimiter is dropped
			below := strings.HasPrefix(other, name+"/")
			if !ref.names[name] || ref.names[other] || below || malformed || other == "" {
				vsymAssert(err != nil, "RENAME from a missing name, onto an existing or ill-formed name or below itself is refused")
			}
			if err == nil {
				for _, s := range c14Superiors(other) {
					if !ref.names[s] {
						ref.names[s] = true
						ref.subs[s] = true
					}
				}
				if name == "INBOX" {
					ref.names[other] = true
					ref.subs[other] = true
				} else {
					moved := map[string]string{name: other}
					for n := range ref.names {
						if strings.HasPrefix(n, name+"/") {
							moved[n] = other + strings.TrimPrefix(n, name)
						}
					}
					for from, to := range moved {
						sub := ref.subs[from]
						delete(ref.names, from)
						delete(ref.subs, from)
						ref.names[to] = true
						if sub {
							ref.subs[to] = true
						}
					}
				}
			}
		case 3: // SUBSCRIBE
			err := st.Subscribe(ctx, name)
			if !ref.names[name] || ref.subs[name] {
				vsymAssert(err != nil, "SUBSCRIBE to a missing or already subscribed mailbox is refused")
			} else {
				vsymAssert(err == nil, "SUBSCRIBE succeeds")
				ref.subs[name] = true
			}
		case 4: // UNSUBSCRIBE
			err := st.Unsubscribe(ctx, name)
			if !ref.subs[name] {
				vsymAssert(err != nil, "UNSUBSCRIBE from a not subscribed name is refused")
			} else {
				vsymAssert(err == nil, "UNSUBSCRIBE succeeds")
				delete(ref.subs, name)
			}
		}
		for _, b := range w.db.Boxes {
			if !seenBox[b.ID] {
				seenBox[b.ID] = true
				if prev, had := maxUIDV[b.Name]; had {
					vsymCover("name-recreated")
					vsymAssert(b.UIDValidity > prev, "a re-created mailbox name gets a UIDVALIDITY above every earlier value of that name")
				}
			}
			if b.UIDValidity > maxUIDV[b.Name] {
				maxUIDV[b.Name] = b.UIDValidity
			}
		}
		// compare the name set and subscription state (recovery mailbox excluded)
		cnt := 0
		for _, b := range w.db.Boxes {
			if b.ID == w.user.recovery.InternalID {
				continue
			}
			cnt++
			vsymAssert(ref.names[b.Name], "every mailbox of the index exists in the reference model")
			vsymAssert(b.Subscribed == ref.subs[b.Name], "subscription state as in the reference model")
		}
		vsymAssert(cnt == len(ref.names), "the index holds exactly the mailboxes of the reference model (names unique)")
		// LSUB "" "*": exactly the subscribed names; \Noselect iff the name has no mailbox (any more)
		if vsymParam("lsub") == 1 {
			var got map[string]Match
			err := st.List(ctx, "", "*", true, func(m map[string]Match) error { got = m; return nil })
			vsymAssert(err == nil, "LSUB succeeds")
			if err == nil {
				n := 0
				for nm, sub := range ref.subs {
					if !sub {
						continue
					}
					n++
					m, in := got[nm]
					vsymAssert(in, "a subscribed name is returned by LSUB *")
					if in {
						vsymAssert(m.Atts.Contains(imap.AttrNoSelect) == !ref.names[nm], "LSUB: \\Noselect exactly when the subscribed name has no mailbox")
					}
				}
				vsymAssert(len(got) == n, "LSUB * returns nothing but the subscribed names")
			}
		}
	}
}

// ---- LIST: RFC 3501 wildcard matching over the existing names and the names that exist only as parents ----

// c14Wild: '*' matches any characters, '%' any characters but the delimiter.
func c14Wild(p, s string) bool { return c14WildD(p, s, '/') }

func c14WildD(p, s string, delim byte) bool {
	if p == "" {
		return s == ""
	}
	switch p[0] {
	case '*':
		for i := 0; i <= len(s); i++ {
			if c14WildD(p[1:], s[i:], delim) {
				return true
			}
		}
		return false
	case '%':
		for i := 0; i <= len(s); i++ {
			if i > 0 && s[i-1] == delim {
				break
			}
			if c14WildD(p[1:], s[i:], delim) {
				return true
			}
		}
		return false
	}
	return s != "" && s[0] == p[0] && c14WildD(p[1:], s[1:], delim)
}

var c14ListPool = []string{"a", "a/b", "a/b/c", "b", "ab/c", "a/b/c/d"}
var c14Refs = []string{"", "a/", "a", "a/b/"}
var c14Patterns = []string{"*", "%", "a/%", "a*", "%/%", "*c", "a/b", "inbox", "%b", "a/*", "*/c", "a/%/c", "A", "%/%/%", "*%", "a/b/c/d"}

// VerifC14List: LIST ref pattern over an arbitrary subset of a name pool (so that names can exist only as parents,
// at any number of consecutive levels) returns exactly the names the wildcard rules select among the existing
// names and their superiors, with \\Noselect exactly for the names that exist only as parents.
func VerifC14List() {
	w := verifNewWorld(limits.DefaultLimits())
	w.db.AddBox("INBOX", "mb-inbox", 2)
	exists := map[string]bool{"INBOX": true}
	for i, nm := range c14ListPool {
		if vsymChoice("present", 2) == 1 {
			w.db.AddBox(nm, imap.MailboxID("mb-"+nm), imap.UID(10+i))
			exists[nm] = true
		}
	}
	ref := c14Refs[vsymChoice("ref", len(c14Refs))]
	pattern := c14Patterns[vsymChoice("pattern", len(c14Patterns))]
	st := w.newState(1)
	var got map[string]Match
	err := st.List(ctxFor(st), ref, pattern, false, func(m map[string]Match) error { got = m; return nil })
	vsymAssert(err == nil, "LIST succeeds")
	if err != nil {
		return
	}
	cand := map[string]bool{}
	for nm := range exists {
		cand[nm] = true
		for _, s := range c14Superiors(nm) {
			cand[s] = true
		}
	}
	// INBOX is case-insensitive in the pattern as well
	full := ref + pattern
	segs := strings.Split(full, "/")
	for i := range segs {
		if strings.EqualFold(segs[i], "inbox") {
			segs[i] = "INBOX"
		}
	}
	full = strings.Join(segs, "/")
	want := 0
	for nm := range cand {
		m, in := got[nm]
		if c14Wild(full, nm) {
			want++
			vsymAssert(in, "a name selected by the pattern is listed")
			if in {
				vsymAssert(m.Atts.Contains(imap.AttrNoSelect) == !exists[nm], "\\Noselect exactly for names that exist only as parents")
				vsymAssert(m.Delimiter == "/", "delimiter reported")
			}
		} else {
			vsymAssert(!in, "a name the pattern does not select is not listed")
		}
	}
	vsymAssert(len(got) == want, "nothing but existing names and their superiors is listed")
	vsymCover("list-done")
}

var c14LsubPool = []string{"a", "a/b", "a/b/c", "b"}
var c14LsubPatterns = []string{"*", "%", "a/%", "a/*", "a/b", "%/%", "*c", "b"}

// VerifC14Lsub: LSUB over every combination of {absent, subscribed, unsubscribed, deleted but still subscribed} for
// a pool of names: exactly the subscribed names the pattern selects are returned; a name that is not subscribed
// itself but has a subscribed inferior is returned with \Noselect when the pattern ends in '%' (RFC 3501 6.3.9);
// a subscribed name whose mailbox is gone is \Noselect as well.
func VerifC14Lsub() {
	w := verifNewWorld(limits.DefaultLimits())
	inbox := w.db.AddBox("INBOX", "mb-inbox", 2)
	inbox.Subscribed = false
	subscribed := map[string]bool{}
	exists := map[string]bool{"INBOX": true}
	for i, nm := range c14LsubPool {
		switch vsymChoice("state", 4) {
		case 1:
			w.db.AddBox(nm, imap.MailboxID("mb-"+nm), imap.UID(10+i)) // AddBox subscribes
			subscribed[nm], exists[nm] = true, true
		case 2:
			w.db.AddBox(nm, imap.MailboxID("mb-"+nm), imap.UID(10+i)).Subscribed = false
			exists[nm] = true
		case 3:
			w.db.DeletedSubs = append(w.db.DeletedSubs, db.DeletedSubscription{Name: nm, RemoteID: imap.MailboxID("gone-" + nm)})
			subscribed[nm] = true
		}
	}
	pattern := c14LsubPatterns[vsymChoice("pattern", len(c14LsubPatterns))]
	st := w.newState(1)
	var got map[string]Match
	err := st.List(ctxFor(st), "", pattern, true, func(m map[string]Match) error { got = m; return nil })
	vsymAssert(err == nil, "LSUB succeeds")
	if err != nil {
		return
	}
	cand := map[string]bool{}
	for nm := range subscribed {
		cand[nm] = true
		for _, s := range c14Superiors(nm) {
			cand[s] = true
		}
	}
	want := 0
	for nm := range cand {
		m, in := got[nm]
		sel := c14Wild(pattern, nm)
		switch {
		case sel && subscribed[nm]:
			want++
			vsymAssert(in, "a subscribed name the pattern selects is returned by LSUB")
			if in {
				vsymAssert(m.Atts.Contains(imap.AttrNoSelect) == !exists[nm], "\\Noselect exactly when the subscribed name has no mailbox any more")
			}
		case sel && !subscribed[nm] && strings.HasSuffix(pattern, "%"):
			want++
			vsymAssert(in, "an unsubscribed name with a subscribed inferior is returned when the pattern ends in %")
			if in {
				vsymAssert(m.Atts.Contains(imap.AttrNoSelect), "... with \\Noselect")
			}
		default:
			vsymAssert(!in, "LSUB returns nothing but subscribed names (and their parents under a trailing %)")
		}
	}
	vsymAssert(len(got) == want, "nothing else is returned")
	vsymCover("lsub-done")
}

var c14DotPool = []string{"a", "a.b", "a-b", "axb", "a.b.c", "ab"}
var c14DotPatterns = []string{"a.b", "a.%", "a.*", "%", "*", "a%", "a.b.%", "%.%"}

// VerifC14ListDot: LIST with the hierarchy delimiter "." (a regular-expression metacharacter): the delimiter is a
// literal in references and patterns and the only thing '%' does not cross.
func VerifC14ListDot() {
	w := verifNewWorld(limits.DefaultLimits())
	w.user.delimiter = "."
	w.db.AddBox("INBOX", "mb-inbox", 2)
	exists := map[string]bool{"INBOX": true}
	for i, nm := range c14DotPool {
		if vsymChoice("present", 2) == 1 {
			w.db.AddBox(nm, imap.MailboxID("mb-"+nm), imap.UID(10+i))
			exists[nm] = true
		}
	}
	ref := []string{"", "a."}[vsymChoice("ref", 2)]
	pattern := c14DotPatterns[vsymChoice("pattern", len(c14DotPatterns))]
	st := w.newState(1)
	st.delimiter = "."
	var got map[string]Match
	err := st.List(ctxFor(st), ref, pattern, false, func(m map[string]Match) error { got = m; return nil })
	vsymAssert(err == nil, "LIST succeeds")
	if err != nil {
		return
	}
	cand := map[string]bool{}
	for nm := range exists {
		cand[nm] = true
		for i := 0; i < len(nm); i++ {
			if nm[i] == '.' {
				cand[nm[:i]] = true
			}
		}
	}
	want := 0
	for nm := range cand {
		m, in := got[nm]
		if c14WildD(ref+pattern, nm, '.') {
			want++
			vsymAssert(in, "a name selected by the pattern is listed (delimiter '.')")
			if in {
				vsymAssert(m.Atts.Contains(imap.AttrNoSelect) == !exists[nm], "\\Noselect exactly for names that exist only as parents")
				vsymAssert(m.Delimiter == ".", "delimiter reported")
			}
		} else {
			vsymAssert(!in, "a name the pattern does not select is not listed (delimiter '.')")
		}
	}
	vsymAssert(len(got) == want, "nothing but existing names and their superiors is listed")
	vsymCover("list-dot-done")
}
