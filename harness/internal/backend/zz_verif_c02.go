package backend

import (
	"context"
	"time"

	"github.com/ProtonMail/gluon/imap"
	"github.com/ProtonMail/gluon/internal/state"
)

// verifDrain applies every update queued for st, in order, as Session.serve does between two commands.
func verifDrain(st *state.State) {
	ch := st.GetStateUpdatesCh()
	for {
		vsymSched() // (goroutine model: the queue's forwarding goroutine runs until it blocks)
		select {
		case u := <-ch:
			if err := st.ApplyUpdate(context.Background(), u); err != nil {
				vsymAssert(false, "ApplyUpdate failed")
			}
		case <-time.After(50 * time.Millisecond):
			return
		}
	}
}

func verifViewOf(st *state.State) []state.VerifViewEntry {
	var out []state.VerifViewEntry
	if err := st.Selected(context.Background(), func(m *state.Mailbox) error {
		out = m.VerifView()
		return nil
	}); err != nil {
		panic(err)
	}
	return out
}

// VerifC02Connector: a session has mailbox A selected while the connector delivers a symbolic history of message
// updates through the real backend appliers (user.apply -> applyMessage* -> setMessageMailboxes / setMessageFlags ->
// userDBWrite -> queueStateUpdate).  Delivery of the queued state updates and the session's flushes happen at
// symbolic points.  At quiescence (queue drained, NOOP) the session's view must equal a freshly selected one.
func VerifC02Connector() {
	k := vsymParam("k")
	u, d, st := verifUser()
	a := d.AddBox("A", "mb-A", 2)
	b := d.AddBox("B", "mb-B", 3)
	id1, id2 := imap.NewInternalMessageID(), imap.NewInternalMessageID()
	fl1 := [][]string{{}, {imap.FlagSeen}}[vsymChoice("flags1", 2)]
	d.AddMsg(id1, "rm-1", fl1...)
	a.AddRow(id1, "rm-1", 1, false, false)
	d.AddMsg(id2, "rm-2")
	b.AddRow(id2, "rm-2", 1, false, false)
	st.data[id1] = []byte("X-Pm-Gluon-Id: " + id1.String() + "\r\n" + verifLit1)
	st.data[id2] = []byte("X-Pm-Gluon-Id: " + id2.String() + "\r\n" + verifLit2)
	ctx := context.Background()

	obs, err := u.newState()
	if err != nil {
		panic(err)
	}
	if err := obs.Select(state.NewStateContext(ctx, obs), "A", func(m *state.Mailbox) error { return nil }); err != nil {
		panic(err)
	}
	flush := func(permit bool) {
		err := obs.Selected(state.NewStateContext(ctx, obs), func(m *state.Mailbox) error {
			_, err := m.Flush(state.NewStateContext(ctx, obs), permit)
			return err
		})
		vsymAssert(err == nil, "flush succeeds")
	}

	for step := 0; step < k; step++ {
		switch vsymChoice("event", 5) {
		case 0: // the message's mailboxes (and flags) change
			msg := []imap.MessageID{"rm-1", "rm-2"}[vsymChoice("mmMsg", 2)]
			boxes := [][]imap.MailboxID{{"mb-A"}, {"mb-B"}, {"mb-A", "mb-B"}}[vsymChoice("mmBoxes", 3)]
			flags := []imap.FlagSet{imap.NewFlagSet(), imap.NewFlagSet(imap.FlagSeen), imap.NewFlagSet(imap.FlagFlagged)}[vsymChoice("mmFlags", 3)]
			vsymAssert(u.apply(ctx, imap.NewMessageMailboxesUpdated(msg, boxes, flags)) == nil, "MessageMailboxesUpdated applies")
			vsymCover("mailboxes-updated")
		case 1: // flags change
			msg := []imap.MessageID{"rm-1", "rm-2"}[vsymChoice("mfMsg", 2)]
			flags := []imap.FlagSet{imap.NewFlagSet(), imap.NewFlagSet(imap.FlagSeen), imap.NewFlagSet(imap.FlagFlagged, imap.FlagSeen)}[vsymChoice("mfFlags", 3)]
			vsymAssert(u.apply(ctx, imap.NewMessageFlagsUpdated(msg, flags)) == nil, "MessageFlagsUpdated applies")
			vsymCover("flags-updated")
		case 2: // the message is deleted
			msg := []imap.MessageID{"rm-1", "rm-2"}[vsymChoice("mdMsg", 2)]
			vsymAssert(u.apply(ctx, imap.NewMessagesDeleted(msg)) == nil, "MessagesDeleted applies")
			vsymCover("deleted")
		case 3: // queued updates reach the session
			verifDrain(obs)
		case 4: // the session finishes a command
			flush(vsymBool("permitExpunge"))
		}
	}
	verifDrain(obs)
	flush(true)
	got := verifViewOf(obs)

	fresh, err := u.newState()
	if err != nil {
		panic(err)
	}
	if err := fresh.Select(state.NewStateContext(ctx, fresh), "A", func(m *state.Mailbox) error { return nil }); err != nil {
		panic(err)
	}
	want := verifViewOf(fresh)
	vsymAssert(len(got) == len(want), "after NOOP the session sees exactly the messages of the mailbox")
	if len(got) != len(want) {
		return
	}
	for i := range want {
		vsymAssert(got[i].ID == want[i].ID, "same messages in the same order")
		vsymAssert(got[i].UID == want[i].UID, "same UIDs")
		vsymAssert(got[i].Flags == want[i].Flags, "same flags (ignoring \\Recent)")
	}
	_ = b
}
