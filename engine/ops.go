package main

import (
	"fmt"
	"go/token"
	"go/types"
	"math"
	"unicode/utf8"

	"golang.org/x/tools/go/ssa"
)

func (e *Exec) term(s Sc, ki kindInfo) *Term {
	if s.T != nil {
		return s.T
	}
	if ki.isBool {
		return e.ctx.Bool(s.C != 0)
	}
	return e.ctx.BV(s.C, ki.w)
}

func (e *Exec) boolSc(t *Term) Sc {
	if t.Op == OpConst {
		return Sc{C: t.K}
	}
	return Sc{T: t}
}

func (e *Exec) not(s Sc) Sc {
	if s.T == nil {
		return mkBool(s.C == 0)
	}
	return e.boolSc(e.ctx.Not(s.T))
}

func (e *Exec) and(a, b Sc) Sc {
	if a.T == nil {
		if a.C == 0 {
			return a
		}
		return b
	}
	if b.T == nil {
		if b.C == 0 {
			return b
		}
		return a
	}
	return e.boolSc(e.ctx.And(a.T, b.T))
}

func (e *Exec) or(a, b Sc) Sc {
	if a.T == nil {
		if a.C != 0 {
			return a
		}
		return b
	}
	if b.T == nil {
		if b.C != 0 {
			return b
		}
		return a
	}
	return e.boolSc(e.ctx.Or(a.T, b.T))
}

func (e *Exec) unop(fr *frame, instr *ssa.UnOp, x Value) Value {
	switch instr.Op {
	case token.ARROW:
		c := x.(*Chan)
		v, ok := e.chanRecv(c, instr.X.Type().Underlying().(*types.Chan).Elem())
		if instr.CommaOk {
			return Tuple{v, mkBool(ok)}
		}
		return v
	case token.MUL:
		if sr, ok := x.(symRef); ok {
			v, ok := e.symSelect(sr.idx, len(sr.arr), sr.elemT, func(i int) Value { return sr.arr[i] })
			if !ok {
				panic("symRef select failed")
			}
			return v
		}
		return e.load(nil, e.deref(fr, x))
	case token.SUB:
		switch x := x.(type) {
		case Sc:
			ki := basicInfo(instr.X.Type())
			if x.T == nil {
				return Sc{C: canon(-x.C, ki)}
			}
			return Sc{T: e.ctx.Neg(x.T)}
		case float64:
			return -x
		case float32:
			return -x
		}
	case token.NOT:
		return e.not(x.(Sc))
	case token.XOR:
		s := x.(Sc)
		ki := basicInfo(instr.X.Type())
		if s.T == nil {
			return Sc{C: canon(^s.C, ki)}
		}
		return Sc{T: e.ctx.BNot(s.T)}
	}
	panic(fmt.Sprintf("invalid unary op %s %T", instr.Op, x))
}

func (e *Exec) binop(op token.Token, t types.Type, x, y Value) Value {
	switch x := x.(type) {
	case Sc:
		ki := basicInfo(t)
		if ki.isBool {
			ys := y.(Sc)
			switch op {
			case token.EQL:
				return e.scEq(x, ys, ki)
			case token.NEQ:
				return e.not(e.scEq(x, ys, ki))
			case token.AND:
				return e.and(x, ys)
			case token.OR:
				return e.or(x, ys)
			}
			panic("bad bool op " + op.String())
		}
		return e.intBinop(op, ki, x, y.(Sc), t)
	case Str:
		ys := y.(Str)
		switch op {
		case token.ADD:
			return strConcat(x, ys)
		case token.EQL:
			return e.strEq(x, ys)
		case token.NEQ:
			return e.not(e.strEq(x, ys))
		case token.LSS:
			return e.strLess(x, ys, false)
		case token.LEQ:
			return e.strLess(x, ys, true)
		case token.GTR:
			return e.strLess(ys, x, false)
		case token.GEQ:
			return e.strLess(ys, x, true)
		}
	case float64:
		yf := y.(float64)
		switch op {
		case token.ADD:
			return x + yf
		case token.SUB:
			return x - yf
		case token.MUL:
			return x * yf
		case token.QUO:
			return x / yf
		case token.EQL:
			return mkBool(x == yf)
		case token.NEQ:
			return mkBool(x != yf)
		case token.LSS:
			return mkBool(x < yf)
		case token.LEQ:
			return mkBool(x <= yf)
		case token.GTR:
			return mkBool(x > yf)
		case token.GEQ:
			return mkBool(x >= yf)
		}
	case float32:
		yf := y.(float32)
		switch op {
		case token.ADD:
			return x + yf
		case token.SUB:
			return x - yf
		case token.MUL:
			return x * yf
		case token.QUO:
			return x / yf
		case token.EQL:
			return mkBool(x == yf)
		case token.NEQ:
			return mkBool(x != yf)
		case token.LSS:
			return mkBool(x < yf)
		case token.LEQ:
			return mkBool(x <= yf)
		case token.GTR:
			return mkBool(x > yf)
		case token.GEQ:
			return mkBool(x >= yf)
		}
	}
	switch op {
	case token.EQL:
		return e.equals(t, x, y)
	case token.NEQ:
		return e.not(e.equals(t, x, y))
	}
	panic(fmt.Sprintf("invalid binary op: %T %s %T", x, op, y))
}

func (e *Exec) scEq(x, y Sc, ki kindInfo) Sc {
	if x.T == nil && y.T == nil {
		return mkBool(x.C == y.C)
	}
	return e.boolSc(e.ctx.Eq(e.term(x, ki), e.term(y, ki)))
}

func (e *Exec) intBinop(op token.Token, ki kindInfo, x, y Sc, t types.Type) Value {
	if !ki.isInt {
		panic(fmt.Sprintf("intBinop on non-int type %v", t))
	}
	// shifts: y has its own type; handled by shiftOp via caller providing y already as Sc; we need y's width:
	if op == token.SHL || op == token.SHR {
		panic("shift must go through shiftOp")
	}
	if x.T == nil && y.T == nil {
		a, b := x.C, y.C
		switch op {
		case token.ADD:
			return Sc{C: canon(a+b, ki)}
		case token.SUB:
			return Sc{C: canon(a-b, ki)}
		case token.MUL:
			return Sc{C: canon(a*b, ki)}
		case token.QUO:
			if b == 0 {
				e.rtPanic("integer divide by zero")
			}
			if ki.signed {
				if int64(b) == -1 {
					return Sc{C: canon(-a, ki)}
				}
				return Sc{C: canon(uint64(int64(a)/int64(b)), ki)}
			}
			return Sc{C: canon(a/b, ki)}
		case token.REM:
			if b == 0 {
				e.rtPanic("integer divide by zero")
			}
			if ki.signed {
				if int64(b) == -1 {
					return Sc{}
				}
				return Sc{C: canon(uint64(int64(a)%int64(b)), ki)}
			}
			return Sc{C: canon(a%b, ki)}
		case token.AND:
			return Sc{C: canon(a&b, ki)}
		case token.OR:
			return Sc{C: canon(a|b, ki)}
		case token.XOR:
			return Sc{C: canon(a^b, ki)}
		case token.AND_NOT:
			return Sc{C: canon(a&^b, ki)}
		case token.EQL:
			return mkBool(a == b)
		case token.NEQ:
			return mkBool(a != b)
		case token.LSS:
			if ki.signed {
				return mkBool(int64(a) < int64(b))
			}
			return mkBool(a < b)
		case token.LEQ:
			if ki.signed {
				return mkBool(int64(a) <= int64(b))
			}
			return mkBool(a <= b)
		case token.GTR:
			if ki.signed {
				return mkBool(int64(a) > int64(b))
			}
			return mkBool(a > b)
		case token.GEQ:
			if ki.signed {
				return mkBool(int64(a) >= int64(b))
			}
			return mkBool(a >= b)
		}
		panic("bad int op " + op.String())
	}
	a, b := e.term(x, ki), e.term(y, ki)
	c := e.ctx
	bv := func(t *Term) Value { return e.fromTermT(t, ki) }
	switch op {
	case token.ADD:
		return bv(c.Bin(OpAdd, a, b))
	case token.SUB:
		return bv(c.Bin(OpSub, a, b))
	case token.MUL:
		return bv(c.Bin(OpMul, a, b))
	case token.QUO, token.REM:
		if e.branch(e.boolSc(c.Eq(b, c.BV(0, ki.w)))) {
			e.rtPanic("integer divide by zero")
		}
		var o Op
		switch {
		case op == token.QUO && ki.signed:
			o = OpSdiv
		case op == token.QUO:
			o = OpUdiv
		case ki.signed:
			o = OpSrem
		default:
			o = OpUrem
		}
		return bv(c.Bin(o, a, b))
	case token.AND:
		return bv(c.Bin(OpBAnd, a, b))
	case token.OR:
		return bv(c.Bin(OpBOr, a, b))
	case token.XOR:
		return bv(c.Bin(OpBXor, a, b))
	case token.AND_NOT:
		return bv(c.Bin(OpBAnd, a, c.BNot(b)))
	case token.EQL:
		return e.boolSc(c.Eq(a, b))
	case token.NEQ:
		return e.boolSc(c.Not(c.Eq(a, b)))
	case token.LSS:
		if ki.signed {
			return e.boolSc(c.Slt(a, b))
		}
		return e.boolSc(c.Ult(a, b))
	case token.LEQ:
		if ki.signed {
			return e.boolSc(c.Sle(a, b))
		}
		return e.boolSc(c.Ule(a, b))
	case token.GTR:
		if ki.signed {
			return e.boolSc(c.Slt(b, a))
		}
		return e.boolSc(c.Ult(b, a))
	case token.GEQ:
		if ki.signed {
			return e.boolSc(c.Sle(b, a))
		}
		return e.boolSc(c.Ule(b, a))
	}
	panic("bad int op " + op.String())
}

// shiftOp implements x << y and x >> y with Go semantics.
func (e *Exec) shiftOp(op token.Token, tx, ty types.Type, x, y Sc) Value {
	kx, ky := basicInfo(tx), basicInfo(ty)
	if ky.signed {
		// negative shift count panics
		if y.T == nil {
			if int64(y.C) < 0 {
				e.rtPanic("negative shift amount")
			}
		} else if e.branch(e.boolSc(e.ctx.Slt(y.T, e.ctx.BV(0, ky.w)))) {
			e.rtPanic("negative shift amount")
		}
	}
	if x.T == nil && y.T == nil {
		n := y.C
		if op == token.SHL {
			if n >= uint64(kx.w) {
				return Sc{}
			}
			return Sc{C: canon(x.C<<n, kx)}
		}
		if kx.signed {
			if n >= uint64(kx.w) {
				n = uint64(kx.w) - 1
			}
			return Sc{C: canon(uint64(int64(x.C)>>n), kx)}
		}
		if n >= uint64(kx.w) {
			return Sc{}
		}
		return Sc{C: canon((x.C&mask(kx.w))>>n, kx)}
	}
	c := e.ctx
	a := e.term(x, kx)
	b := e.term(y, ky)
	// bring the shift amount to x's width, saturating
	var amt *Term
	switch {
	case ky.w == kx.w:
		amt = b
	case ky.w < kx.w:
		amt = c.Zext(b, kx.w-ky.w)
	default:
		big := c.Ule(c.BV(uint64(kx.w), ky.w), b)
		amt = c.Ite(big, c.BV(uint64(kx.w), kx.w), c.Extract(b, kx.w-1, 0))
	}
	var r *Term
	switch {
	case op == token.SHL:
		r = c.Bin(OpShl, a, amt)
	case kx.signed:
		r = c.Bin(OpAshr, a, amt)
	default:
		r = c.Bin(OpLshr, a, amt)
	}
	return e.fromTermT(r, kx)
}

func (e *Exec) strEq(x, y Str) Sc {
	// a formatted string with literal text in its format is not the empty string
	if x.opaque && x.nonEmpty && !y.opaque && y.Len() == 0 || y.opaque && y.nonEmpty && !x.opaque && x.Len() == 0 {
		return mkBool(false)
	}
	if x.opaque || y.opaque {
		e.unsupported("comparison of opaque (formatted) string")
	}
	if x.Len() != y.Len() {
		return mkBool(false)
	}
	if x.b == nil && y.b == nil {
		return mkBool(x.s == y.s)
	}
	r := mkBool(true)
	ki := kindInfo{w: 8, isInt: true}
	for i := 0; i < x.Len(); i++ {
		r = e.and(r, e.scEq(x.At(i), y.At(i), ki))
		if r.T == nil && r.C == 0 {
			return r
		}
	}
	return r
}

// strLess: x < y (or x <= y if orEq), lexicographic on bytes.
func (e *Exec) strLess(x, y Str, orEq bool) Sc {
	if x.opaque || y.opaque {
		e.unsupported("comparison of opaque (formatted) string")
	}
	if x.b == nil && y.b == nil {
		if orEq {
			return mkBool(x.s <= y.s)
		}
		return mkBool(x.s < y.s)
	}
	n := x.Len()
	if y.Len() < n {
		n = y.Len()
	}
	// result when all common bytes equal
	var tail Sc
	if orEq {
		tail = mkBool(x.Len() <= y.Len())
	} else {
		tail = mkBool(x.Len() < y.Len())
	}
	ki := kindInfo{w: 8, isInt: true}
	res := tail
	for i := n - 1; i >= 0; i-- {
		a, b := x.At(i), y.At(i)
		lt := e.intBinop(token.LSS, ki, a, b, types.Typ[types.Uint8]).(Sc)
		eq := e.scEq(a, b, ki)
		// res = lt || (eq && res)
		res = e.or(lt, e.and(eq, res))
	}
	return res
}

func sameType(x, y types.Type) bool {
	if x == nil || y == nil {
		return x == y
	}
	return types.Identical(x, y)
}

// equals implements == for all comparable types; the result may be symbolic.
func (e *Exec) equals(t types.Type, x, y Value) Sc {
	switch x := x.(type) {
	case Sc:
		ys := y.(Sc)
		if x.T == nil && ys.T == nil {
			return mkBool(x.C == ys.C)
		}
		var ki kindInfo
		if x.T != nil {
			ki = kindInfo{w: x.T.W, isInt: x.T.W != 0, isBool: x.T.W == 0}
		} else {
			ki = kindInfo{w: ys.T.W, isInt: ys.T.W != 0, isBool: ys.T.W == 0}
		}
		return e.scEq(x, ys, ki)
	case Str:
		return e.strEq(x, y.(Str))
	case float64:
		return mkBool(x == y.(float64))
	case float32:
		return mkBool(x == y.(float32))
	case complex128:
		return mkBool(x == y.(complex128))
	case *Value:
		return mkBool(x == y.(*Value))
	case *Chan:
		return mkBool(x == y.(*Chan))
	case *Map:
		return mkBool(x == y.(*Map)) // only nil comparisons are legal
	case Slice:
		ys := y.(Slice)
		return mkBool(x == nil && ys == nil)
	case *ssa.Function:
		switch yf := y.(type) {
		case *ssa.Function:
			return mkBool(x == yf)
		case *Closure:
			return mkBool(false)
		}
	case *Closure:
		switch yf := y.(type) {
		case *ssa.Function:
			return mkBool(false && yf == nil)
		case *Closure:
			return mkBool(x == yf)
		}
	case UPtr:
		return mkBool(x.p == y.(UPtr).p)
	case Struct:
		ys := y.(Struct)
		r := mkBool(true)
		var st *types.Struct
		if t != nil {
			st, _ = t.Underlying().(*types.Struct)
		}
		for i := range x {
			if st != nil && st.Field(i).Name() == "_" {
				continue
			}
			var ft types.Type
			if st != nil {
				ft = st.Field(i).Type()
			}
			r = e.and(r, e.equals(ft, x[i], ys[i]))
			if r.T == nil && r.C == 0 {
				return r
			}
		}
		return r
	case Array:
		ys := y.(Array)
		r := mkBool(true)
		var et types.Type
		if t != nil {
			if at, ok := t.Underlying().(*types.Array); ok {
				et = at.Elem()
			}
		}
		for i := range x {
			r = e.and(r, e.equals(et, x[i], ys[i]))
			if r.T == nil && r.C == 0 {
				return r
			}
		}
		return r
	case Iface:
		yi := y.(Iface)
		if x.t == nil || yi.t == nil {
			return mkBool(x.t == nil && yi.t == nil)
		}
		if !sameType(x.t, yi.t) {
			return mkBool(false)
		}
		if !types.Comparable(x.t) {
			e.rtPanic("comparing uncomparable type " + x.t.String())
		}
		return e.equals(x.t, x.v, yi.v)
	case rtype:
		return mkBool(types.Identical(x.t, y.(rtype).t))
	}
	panic(fmt.Sprintf("equals: comparing %T and %T", x, y))
}

// ---------- conversions ----------

func (e *Exec) conv(tDst, tSrc types.Type, x Value) Value {
	uSrc := tSrc.Underlying()
	uDst := tDst.Underlying()
	switch uSrc := uSrc.(type) {
	case *types.Pointer:
		if b, ok := uDst.(*types.Basic); ok && b.Kind() == types.UnsafePointer {
			return UPtr{x}
		}
		return x
	case *types.Slice:
		// []byte / []rune -> string
		sl := x.(Slice)
		if bi, ok := uSrc.Elem().Underlying().(*types.Basic); ok {
			if bi.Kind() == types.Uint8 {
				b := make([]Sc, len(sl))
				for i, v := range sl {
					b[i] = v.(Sc)
				}
				return mkStrBytes(b)
			}
			if bi.Kind() == types.Int32 {
				rs := make([]rune, len(sl))
				for i, v := range sl {
					s := v.(Sc)
					if s.T != nil {
						e.unsupported("string([]rune) with symbolic rune")
					}
					rs[i] = rune(int64(s.C))
				}
				return Str{s: string(rs)}
			}
		}
		// slice -> array conversion (go1.20)
		if at, ok := uDst.(*types.Array); ok {
			if int64(len(sl)) < at.Len() {
				e.rtPanic("cannot convert slice to array: length too short")
			}
			return copyVal(Array(sl[:at.Len()]))
		}
	case *types.Basic:
		if uSrc.Kind() == types.UnsafePointer {
			up := x.(UPtr)
			switch uDst.(type) {
			case *types.Pointer:
				if up.p == nil {
					return (*Value)(nil)
				}
				if p, ok := up.p.(*Value); ok {
					return p
				}
				e.unsupported("unsafe.Pointer -> %v from %T", tDst, up.p)
			case *types.Basic:
				return x
			}
			e.unsupported("unsafe.Pointer conversion to %v", tDst)
		}
		kiS := basicInfo(tSrc)
		switch d := uDst.(type) {
		case *types.Slice:
			// string -> []byte / []rune
			s := x.(Str)
			if s.opaque {
				e.unsupported("[]byte(opaque string)")
			}
			if d.Elem().Underlying().(*types.Basic).Kind() == types.Uint8 {
				r := make(Slice, s.Len())
				for i := range r {
					r[i] = s.At(i)
				}
				return r
			}
			// []rune
			if s.b != nil {
				e.assumeASCII(s, "[]rune(symbolic string)")
				r := make(Slice, s.Len())
				for i := range r {
					r[i] = e.widen(s.At(i), kindInfo{w: 8, isInt: true}, kindInfo{w: 32, isInt: true, signed: true})
				}
				return r
			}
			rs := []rune(s.s)
			r := make(Slice, len(rs))
			for i, c := range rs {
				r[i] = Sc{C: uint64(int64(c))}
			}
			return r
		case *types.Basic:
			kiD := basicInfo(tDst)
			if d.Kind() == types.UnsafePointer {
				if kiS.isInt {
					e.unsupported("uintptr -> unsafe.Pointer")
				}
				return x
			}
			switch {
			case kiS.isInt && kiD.isInt:
				return e.widen(x.(Sc), kiS, kiD)
			case kiS.isInt && kiD.isStr:
				s := x.(Sc)
				if s.T != nil {
					return e.runeToStr(s, kiS)
				}
				v := int64(s.C)
				if v < 0 || v > utf8.MaxRune {
					return Str{s: "�"}
				}
				return Str{s: string(rune(v))}
			case kiS.isStr && kiD.isStr:
				return x
			case kiS.isBool && kiD.isBool:
				return x
			case kiS.isInt && kiD.isFlt:
				s := x.(Sc)
				if s.T != nil {
					e.unsupported("float(symbolic int)")
				}
				var f float64
				if kiS.signed {
					f = float64(int64(s.C))
				} else {
					f = float64(s.C)
				}
				if d.Kind() == types.Float32 {
					return float32(f)
				}
				return f
			case kiS.isFlt && kiD.isInt:
				if sf, ok := x.(SymFloat); ok {
					// truncation of a non-negative integral float: the seconds themselves
					i64 := kindInfo{w: 64, isInt: true, signed: true}
					if sf.sec.T != nil && e.branch(e.boolSc(e.ctx.Slt(sf.sec.T, e.ctx.BV(0, 64)))) {
						e.cut("negative symbolic float converted to integer")
					}
					return e.widen(sf.sec, i64, kiD)
				}
				var f float64
				switch v := x.(type) {
				case float64:
					f = v
				case float32:
					f = float64(v)
				}
				if kiD.signed {
					return Sc{C: canon(uint64(int64(f)), kiD)}
				}
				return Sc{C: canon(uint64(f), kiD)}
			case kiS.isFlt && kiD.isFlt:
				var f float64
				switch v := x.(type) {
				case float64:
					f = v
				case float32:
					f = float64(v)
				}
				if d.Kind() == types.Float32 {
					return float32(f)
				}
				return f
			}
		}
	}
	if types.Identical(uSrc, uDst) {
		return x
	}
	panic(fmt.Sprintf("unsupported conversion %v -> %v (%T)", tSrc, tDst, x))
}

func (e *Exec) widen(s Sc, from, to kindInfo) Sc {
	if s.T == nil {
		return Sc{C: canon(s.C, to)}
	}
	t := s.T
	switch {
	case to.w == from.w:
		return s
	case to.w < from.w:
		return e.fromTermT(e.ctx.Extract(t, to.w-1, 0), to)
	case from.signed:
		return e.fromTermT(e.ctx.Sext(t, to.w-from.w), to)
	default:
		return e.fromTermT(e.ctx.Zext(t, to.w-from.w), to)
	}
}

// assumeASCII forks on "all symbolic bytes < 0x80"; the non-ASCII side is cut (stated in evidence).
func (e *Exec) assumeASCII(s Str, what string) {
	for i := 0; i < s.Len(); i++ {
		b := s.At(i)
		if b.T == nil {
			if b.C >= 0x80 {
				e.cut("non-ascii:" + what)
			}
			continue
		}
		if !e.branch(e.boolSc(e.ctx.Ult(b.T, e.ctx.BV(0x80, 8)))) {
			e.cut("non-ascii:" + what)
		}
	}
}

func (e *Exec) cut(reason string) {
	e.cuts[reason]++
	panic(pathEnd{endCut, reason})
}

var _ = math.MaxInt64

// runeToStr implements string(r) for a symbolic integer: 1- and 2-byte UTF-8 encodings are built
// symbolically, anything larger ends the path as unsupported.
func (e *Exec) runeToStr(s Sc, ki kindInfo) Str {
	c := e.ctx
	t := s.T
	w := t.W
	if e.branch(e.boolSc(e.ultConst(t, 0x80))) {
		return Str{b: []Sc{e.fromTermT(c.Extract(t, 7, 0), byteKI)}}
	}
	if w > 8 && !e.branch(e.boolSc(e.ultConst(t, 0x800))) {
		e.unsupported("string(symbolic rune >= 0x800)")
	}
	var t16 *Term
	if w >= 16 {
		t16 = c.Extract(t, 15, 0)
	} else {
		t16 = c.Zext(t, 16-w)
	}
	b0 := c.Bin(OpBOr, c.BV(0xC0, 8), c.Extract(c.Bin(OpLshr, t16, c.BV(6, 16)), 7, 0))
	b1 := c.Bin(OpBOr, c.BV(0x80, 8), c.Bin(OpBAnd, c.Extract(t16, 7, 0), c.BV(0x3F, 8)))
	return Str{b: []Sc{e.fromTermT(b0, byteKI), e.fromTermT(b1, byteKI)}}
}
