package main

// Hash-consed SMT terms (QF_BV + Bool) with light simplification at construction.
// One TermCtx per worker; terms from different contexts must never mix.

import (
	"fmt"
	"strings"
)

type Op uint8

const (
	OpConst Op = iota // bv const (W>0) or bool const (W==0), value in K
	OpVar
	// bool
	OpNot
	OpAnd
	OpOr
	OpEq // args same sort (bv or bool)
	OpUlt
	OpUle
	OpSlt
	OpSle
	// bv
	OpAdd
	OpSub
	OpMul
	OpUdiv
	OpUrem
	OpSdiv
	OpSrem
	OpBAnd
	OpBOr
	OpBXor
	OpBNot
	OpNeg
	OpShl
	OpLshr
	OpAshr
	OpConcat
	OpExtract // K = hi<<8 | lo
	OpZext    // K = extra bits
	OpSext    // K = extra bits
	OpIte     // args: cond, a, b ; sort of a
)

var opNames = map[Op]string{
	OpNot: "not", OpAnd: "and", OpOr: "or", OpEq: "=", OpUlt: "bvult", OpUle: "bvule", OpSlt: "bvslt", OpSle: "bvsle",
	OpAdd: "bvadd", OpSub: "bvsub", OpMul: "bvmul", OpUdiv: "bvudiv", OpUrem: "bvurem", OpSdiv: "bvsdiv", OpSrem: "bvsrem",
	OpBAnd: "bvand", OpBOr: "bvor", OpBXor: "bvxor", OpBNot: "bvnot", OpNeg: "bvneg", OpShl: "bvshl", OpLshr: "bvlshr", OpAshr: "bvashr",
	OpConcat: "concat", OpIte: "ite",
}

type Term struct {
	Op   Op
	W    uint8 // 0 = Bool, else bit-vector width (<=64... concat may reach 128: we cap at 128)
	A    [3]*Term
	K    uint64
	Name string
	ID   int
	// constTree: term is a constant or an ite whose leaves are all constTree
	constTree bool
	size      int32
	// support: the variables the term depends on (at most 2 are tracked; many=true beyond that)
	supp [2]*Term
	nsup uint8
	many bool
}

func (t *Term) addSupp(v *Term) {
	if t.many {
		return
	}
	for i := 0; i < int(t.nsup); i++ {
		if t.supp[i] == v {
			return
		}
	}
	if t.nsup == 2 {
		t.many = true
		return
	}
	t.supp[t.nsup] = v
	t.nsup++
}

// SingleSmallVar returns the only variable t depends on if that variable is a Bool or at most 8 bits wide.
func (t *Term) SingleSmallVar() *Term {
	if t.many || t.nsup != 1 {
		return nil
	}
	v := t.supp[0]
	if v.W > 8 {
		return nil
	}
	return v
}

// nvals is the number of values of a small variable (Bool variables have W == 0).
func nvals(v *Term) int {
	if v.W == 0 {
		return 2
	}
	return 1 << v.W
}

func (t *Term) IsConst() bool { return t.Op == OpConst }
func (t *Term) IsBool() bool  { return t.W == 0 }

type termKey struct {
	op      Op
	w       uint8
	a, b, c *Term
	k       uint64
	name    string
}

type TermCtx struct {
	tab   map[termKey]*Term
	next  int
	True  *Term
	False *Term
	Vars  []*Term
}

func NewTermCtx() *TermCtx {
	c := &TermCtx{tab: make(map[termKey]*Term)}
	c.True = c.mk(OpConst, 0, nil, nil, nil, 1, "")
	c.False = c.mk(OpConst, 0, nil, nil, nil, 0, "")
	return c
}

func (c *TermCtx) mk(op Op, w uint8, a, b, d *Term, k uint64, name string) *Term {
	key := termKey{op, w, a, b, d, k, name}
	if t, ok := c.tab[key]; ok {
		return t
	}
	t := &Term{Op: op, W: w, K: k, Name: name, ID: c.next}
	t.A[0], t.A[1], t.A[2] = a, b, d
	c.next++
	t.size = 1
	for _, x := range t.A {
		if x != nil {
			t.size += x.size
			if t.size > 1<<28 {
				t.size = 1 << 28
			}
		}
	}
	switch op {
	case OpConst:
		t.constTree = true
	case OpIte:
		t.constTree = b.constTree && d.constTree
	case OpVar:
		t.supp[0] = t
		t.nsup = 1
	}
	for _, x := range t.A {
		if x != nil {
			if x.many {
				t.many = true
			}
			for i := 0; i < int(x.nsup); i++ {
				t.addSupp(x.supp[i])
			}
		}
	}
	c.tab[key] = t
	return t
}

func mask(w uint8) uint64 {
	if w >= 64 {
		return ^uint64(0)
	}
	return (uint64(1) << w) - 1
}

func sext64(v uint64, w uint8) int64 {
	if w >= 64 {
		return int64(v)
	}
	sh := 64 - uint(w)
	return int64(v<<sh) >> sh
}

func (c *TermCtx) BV(v uint64, w uint8) *Term {
	if w == 0 {
		panic("BV width 0")
	}
	if w > 64 {
		panic("BV const width > 64")
	}
	return c.mk(OpConst, w, nil, nil, nil, v&mask(w), "")
}

func (c *TermCtx) Bool(b bool) *Term {
	if b {
		return c.True
	}
	return c.False
}

func (c *TermCtx) Var(name string, w uint8) *Term {
	key := termKey{OpVar, w, nil, nil, nil, 0, name}
	if t, ok := c.tab[key]; ok {
		return t
	}
	t := c.mk(OpVar, w, nil, nil, nil, 0, name)
	c.Vars = append(c.Vars, t)
	return t
}

func (c *TermCtx) Not(a *Term) *Term {
	if a.W != 0 {
		panic("Not on bv")
	}
	if a.Op == OpConst {
		return c.Bool(a.K == 0)
	}
	if a.Op == OpNot {
		return a.A[0]
	}
	return c.mk(OpNot, 0, a, nil, nil, 0, "")
}

func (c *TermCtx) And(a, b *Term) *Term {
	if a.Op == OpConst {
		if a.K == 0 {
			return c.False
		}
		return b
	}
	if b.Op == OpConst {
		if b.K == 0 {
			return c.False
		}
		return a
	}
	if a == b {
		return a
	}
	if (a.Op == OpNot && a.A[0] == b) || (b.Op == OpNot && b.A[0] == a) {
		return c.False
	}
	if a.ID > b.ID {
		a, b = b, a
	}
	return c.mk(OpAnd, 0, a, b, nil, 0, "")
}

func (c *TermCtx) Or(a, b *Term) *Term {
	if a.Op == OpConst {
		if a.K != 0 {
			return c.True
		}
		return b
	}
	if b.Op == OpConst {
		if b.K != 0 {
			return c.True
		}
		return a
	}
	if a == b {
		return a
	}
	if (a.Op == OpNot && a.A[0] == b) || (b.Op == OpNot && b.A[0] == a) {
		return c.True
	}
	if a.ID > b.ID {
		a, b = b, a
	}
	return c.mk(OpOr, 0, a, b, nil, 0, "")
}

func (c *TermCtx) Ite(cond, a, b *Term) *Term {
	if a.W != b.W {
		panic(fmt.Sprintf("Ite sort mismatch %d %d", a.W, b.W))
	}
	if cond.Op == OpConst {
		if cond.K != 0 {
			return a
		}
		return b
	}
	if a == b {
		return a
	}
	if cond.Op == OpNot {
		return c.Ite(cond.A[0], b, a)
	}
	if a.W == 0 {
		if a.Op == OpConst && b.Op == OpConst {
			if a.K != 0 {
				return cond
			}
			return c.Not(cond)
		}
		if a.Op == OpConst {
			if a.K != 0 {
				return c.Or(cond, b)
			}
			return c.And(c.Not(cond), b)
		}
		if b.Op == OpConst {
			if b.K != 0 {
				return c.Or(c.Not(cond), a)
			}
			return c.And(cond, a)
		}
	}
	return c.mk(OpIte, a.W, cond, a, b, 0, "")
}

// cmpConstTree pushes a comparison against a constant into an ite tree with constant leaves.
func (c *TermCtx) pushCmp(op Op, t *Term, k *Term, swapped bool, memo map[*Term]*Term) *Term {
	if r, ok := memo[t]; ok {
		return r
	}
	var r *Term
	if t.Op == OpConst {
		if swapped {
			r = c.cmp(op, k, t)
		} else {
			r = c.cmp(op, t, k)
		}
	} else {
		r = c.Ite(t.A[0], c.pushCmp(op, t.A[1], k, swapped, memo), c.pushCmp(op, t.A[2], k, swapped, memo))
	}
	memo[t] = r
	return r
}

func (c *TermCtx) cmp(op Op, a, b *Term) *Term {
	if a.W != b.W {
		panic(fmt.Sprintf("cmp sort mismatch %s: %d %d", opNames[op], a.W, b.W))
	}
	if a.Op == OpConst && b.Op == OpConst {
		var r bool
		switch op {
		case OpEq:
			r = a.K == b.K
		case OpUlt:
			r = a.K < b.K
		case OpUle:
			r = a.K <= b.K
		case OpSlt:
			r = sext64(a.K, a.W) < sext64(b.K, b.W)
		case OpSle:
			r = sext64(a.K, a.W) <= sext64(b.K, b.W)
		}
		return c.Bool(r)
	}
	if a == b {
		switch op {
		case OpEq, OpUle, OpSle:
			return c.True
		default:
			return c.False
		}
	}
	if a.W == 0 && op == OpEq {
		// bool equality
		if a.Op == OpConst {
			if a.K != 0 {
				return b
			}
			return c.Not(b)
		}
		if b.Op == OpConst {
			if b.K != 0 {
				return a
			}
			return c.Not(a)
		}
	}
	if b.Op == OpConst && a.constTree && a.Op == OpIte && a.size < 4096 {
		return c.pushCmp(op, a, b, false, map[*Term]*Term{})
	}
	if a.Op == OpConst && b.constTree && b.Op == OpIte && b.size < 4096 {
		return c.pushCmp(op, b, a, true, map[*Term]*Term{})
	}
	if op == OpEq {
		// eq(zext(x), const): decide by range or narrow
		if b.Op == OpConst && a.Op == OpZext {
			x := a.A[0]
			if b.K > mask(x.W) {
				return c.False
			}
			return c.cmp(OpEq, x, c.BV(b.K, x.W))
		}
		if a.Op == OpConst && b.Op == OpZext {
			return c.cmp(OpEq, b, a)
		}
		if a.ID > b.ID {
			a, b = b, a
		}
	}
	if (op == OpUlt || op == OpUle) && a.W <= 64 {
		// zext(x) < const beyond range
		if b.Op == OpConst && a.Op == OpZext {
			x := a.A[0]
			if b.K > mask(x.W) {
				return c.True
			}
			return c.cmp(op, x, c.BV(b.K, x.W))
		}
		if a.Op == OpConst && b.Op == OpZext {
			x := b.A[0]
			if a.K > mask(x.W) {
				return c.False
			}
			return c.cmp(op, c.BV(a.K, x.W), x)
		}
		if op == OpUlt && b.Op == OpConst && b.K == 0 {
			return c.False
		}
		if op == OpUle && a.Op == OpConst && a.K == 0 {
			return c.True
		}
	}
	if (op == OpSlt || op == OpSle) && a.W <= 64 {
		// signed compare of zero-extended values (non-negative) with constants
		if b.Op == OpConst && a.Op == OpZext {
			x := a.A[0]
			kv := sext64(b.K, b.W)
			if kv < 0 {
				return c.False
			}
			if uint64(kv) > mask(x.W) {
				return c.True
			}
			if op == OpSlt {
				return c.cmp(OpUlt, x, c.BV(uint64(kv), x.W))
			}
			return c.cmp(OpUle, x, c.BV(uint64(kv), x.W))
		}
		if a.Op == OpConst && b.Op == OpZext {
			x := b.A[0]
			kv := sext64(a.K, a.W)
			if kv < 0 {
				return c.True
			}
			if uint64(kv) > mask(x.W) {
				return c.False
			}
			if op == OpSlt {
				return c.cmp(OpUlt, c.BV(uint64(kv), x.W), x)
			}
			return c.cmp(OpUle, c.BV(uint64(kv), x.W), x)
		}
	}
	return c.mk(op, 0, a, b, nil, 0, "")
}

func (c *TermCtx) Eq(a, b *Term) *Term  { return c.cmp(OpEq, a, b) }
func (c *TermCtx) Ult(a, b *Term) *Term { return c.cmp(OpUlt, a, b) }
func (c *TermCtx) Ule(a, b *Term) *Term { return c.cmp(OpUle, a, b) }
func (c *TermCtx) Slt(a, b *Term) *Term { return c.cmp(OpSlt, a, b) }
func (c *TermCtx) Sle(a, b *Term) *Term { return c.cmp(OpSle, a, b) }

func foldBin(op Op, x, y uint64, w uint8) (uint64, bool) {
	m := mask(w)
	switch op {
	case OpAdd:
		return (x + y) & m, true
	case OpSub:
		return (x - y) & m, true
	case OpMul:
		return (x * y) & m, true
	case OpUdiv:
		if y == 0 {
			return m, true
		}
		return (x / y) & m, true
	case OpUrem:
		if y == 0 {
			return x, true
		}
		return (x % y) & m, true
	case OpSdiv:
		if y == 0 {
			return 0, false
		}
		sx, sy := sext64(x, w), sext64(y, w)
		if sy == -1 {
			return uint64(-sx) & m, true
		}
		return uint64(sx/sy) & m, true
	case OpSrem:
		if y == 0 {
			return 0, false
		}
		sx, sy := sext64(x, w), sext64(y, w)
		if sy == -1 {
			return 0, true
		}
		return uint64(sx%sy) & m, true
	case OpBAnd:
		return x & y, true
	case OpBOr:
		return x | y, true
	case OpBXor:
		return x ^ y, true
	case OpShl:
		if y >= uint64(w) {
			return 0, true
		}
		return (x << y) & m, true
	case OpLshr:
		if y >= uint64(w) {
			return 0, true
		}
		return (x >> y) & m, true
	case OpAshr:
		sx := sext64(x, w)
		if y >= uint64(w) {
			y = uint64(w) - 1
		}
		return uint64(sx>>y) & m, true
	}
	return 0, false
}

func (c *TermCtx) Bin(op Op, a, b *Term) *Term {
	if a.W != b.W || a.W == 0 {
		panic(fmt.Sprintf("Bin sort mismatch %s: %d %d", opNames[op], a.W, b.W))
	}
	if a.Op == OpConst && b.Op == OpConst && a.W <= 64 {
		if v, ok := foldBin(op, a.K, b.K, a.W); ok {
			return c.BV(v, a.W)
		}
	}
	w := a.W
	switch op {
	case OpAdd:
		if a.Op == OpConst && a.K == 0 {
			return b
		}
		if b.Op == OpConst && b.K == 0 {
			return a
		}
		if a.Op == OpConst { // canonical: const on the right
			a, b = b, a
		}
		// (x + k1) + k2
		if b.Op == OpConst && a.Op == OpAdd && a.A[1].Op == OpConst {
			return c.Bin(OpAdd, a.A[0], c.BV(a.A[1].K+b.K, w))
		}
	case OpSub:
		if b.Op == OpConst && b.K == 0 {
			return a
		}
		if a == b {
			return c.BV(0, w)
		}
		if b.Op == OpConst {
			return c.Bin(OpAdd, a, c.BV(-b.K, w))
		}
	case OpMul:
		if a.Op == OpConst {
			a, b = b, a
		}
		if b.Op == OpConst {
			if b.K == 0 {
				return b
			}
			if b.K == 1 {
				return a
			}
		}
	case OpBAnd:
		if a.Op == OpConst {
			a, b = b, a
		}
		if b.Op == OpConst {
			if b.K == 0 {
				return b
			}
			if b.K == mask(w) {
				return a
			}
		}
		if a == b {
			return a
		}
	case OpBOr:
		if a.Op == OpConst {
			a, b = b, a
		}
		if b.Op == OpConst {
			if b.K == 0 {
				return a
			}
			if b.K == mask(w) {
				return b
			}
		}
		if a == b {
			return a
		}
	case OpBXor:
		if a.Op == OpConst {
			a, b = b, a
		}
		if b.Op == OpConst && b.K == 0 {
			return a
		}
		if a == b {
			return c.BV(0, w)
		}
	case OpShl, OpLshr, OpAshr:
		if b.Op == OpConst && b.K == 0 {
			return a
		}
	}
	// push arithmetic with a constant into small constant ite-trees (keeps token classes foldable)
	if b.Op == OpConst && a.constTree && a.Op == OpIte && a.size < 1024 {
		return c.pushBin(op, a, b, map[*Term]*Term{})
	}
	return c.mk(op, w, a, b, nil, 0, "")
}

func (c *TermCtx) pushBin(op Op, t *Term, k *Term, memo map[*Term]*Term) *Term {
	if r, ok := memo[t]; ok {
		return r
	}
	var r *Term
	if t.Op == OpConst {
		r = c.Bin(op, t, k)
	} else {
		r = c.Ite(t.A[0], c.pushBin(op, t.A[1], k, memo), c.pushBin(op, t.A[2], k, memo))
	}
	memo[t] = r
	return r
}

func (c *TermCtx) BNot(a *Term) *Term {
	if a.Op == OpConst {
		return c.BV(^a.K, a.W)
	}
	if a.Op == OpBNot {
		return a.A[0]
	}
	return c.mk(OpBNot, a.W, a, nil, nil, 0, "")
}

func (c *TermCtx) Neg(a *Term) *Term {
	if a.Op == OpConst {
		return c.BV(-a.K, a.W)
	}
	return c.mk(OpNeg, a.W, a, nil, nil, 0, "")
}

func (c *TermCtx) Extract(a *Term, hi, lo uint8) *Term {
	if hi < lo || hi >= a.W {
		panic("bad extract")
	}
	nw := hi - lo + 1
	if nw == a.W {
		return a
	}
	if a.Op == OpConst {
		return c.BV(a.K>>lo, nw)
	}
	if a.Op == OpZext || a.Op == OpSext {
		x := a.A[0]
		if hi < x.W {
			return c.Extract(x, hi, lo)
		}
		if a.Op == OpZext && lo >= x.W {
			return c.BV(0, nw)
		}
		if lo == 0 && a.Op == OpZext {
			return c.Zext(x, nw-x.W)
		}
		if lo == 0 && a.Op == OpSext {
			return c.Sext(x, nw-x.W)
		}
	}
	if a.Op == OpIte && a.constTree && a.size < 1024 {
		memo := map[*Term]*Term{}
		var rec func(t *Term) *Term
		rec = func(t *Term) *Term {
			if r, ok := memo[t]; ok {
				return r
			}
			var r *Term
			if t.Op == OpConst {
				r = c.BV(t.K>>lo, nw)
			} else {
				r = c.Ite(t.A[0], rec(t.A[1]), rec(t.A[2]))
			}
			memo[t] = r
			return r
		}
		return rec(a)
	}
	return c.mk(OpExtract, nw, a, nil, nil, uint64(hi)<<8|uint64(lo), "")
}

func (c *TermCtx) Zext(a *Term, extra uint8) *Term {
	if extra == 0 {
		return a
	}
	if a.Op == OpConst {
		return c.BV(a.K, a.W+extra)
	}
	if a.Op == OpZext {
		return c.Zext(a.A[0], uint8(a.K)+extra)
	}
	if a.Op == OpIte && a.constTree && a.size < 1024 {
		return c.mapConstTree(a, func(k *Term) *Term { return c.BV(k.K, a.W+extra) })
	}
	return c.mk(OpZext, a.W+extra, a, nil, nil, uint64(extra), "")
}

func (c *TermCtx) Sext(a *Term, extra uint8) *Term {
	if extra == 0 {
		return a
	}
	if a.Op == OpConst {
		return c.BV(uint64(sext64(a.K, a.W)), a.W+extra)
	}
	if a.Op == OpSext {
		return c.Sext(a.A[0], uint8(a.K)+extra)
	}
	if a.Op == OpZext {
		return c.Zext(a.A[0], uint8(a.K)+extra)
	}
	if a.Op == OpIte && a.constTree && a.size < 1024 {
		return c.mapConstTree(a, func(k *Term) *Term { return c.BV(uint64(sext64(k.K, k.W)), a.W+extra) })
	}
	return c.mk(OpSext, a.W+extra, a, nil, nil, uint64(extra), "")
}

func (c *TermCtx) mapConstTree(a *Term, f func(k *Term) *Term) *Term {
	memo := map[*Term]*Term{}
	var rec func(t *Term) *Term
	rec = func(t *Term) *Term {
		if r, ok := memo[t]; ok {
			return r
		}
		var r *Term
		if t.Op == OpConst {
			r = f(t)
		} else {
			r = c.Ite(t.A[0], rec(t.A[1]), rec(t.A[2]))
		}
		memo[t] = r
		return r
	}
	return rec(a)
}

func (c *TermCtx) Concat(hi, lo *Term) *Term {
	if int(hi.W)+int(lo.W) > 128 {
		panic("concat too wide")
	}
	if hi.Op == OpConst && lo.Op == OpConst && hi.W+lo.W <= 64 {
		return c.BV(hi.K<<lo.W|lo.K, hi.W+lo.W)
	}
	if hi.Op == OpConst && hi.K == 0 {
		return c.Zext(lo, hi.W)
	}
	return c.mk(OpConcat, hi.W+lo.W, hi, lo, nil, 0, "")
}

// ---------- printing ----------

func (t *Term) sortString() string {
	if t.W == 0 {
		return "Bool"
	}
	return fmt.Sprintf("(_ BitVec %d)", t.W)
}

func constString(t *Term) string {
	if t.W == 0 {
		if t.K != 0 {
			return "true"
		}
		return "false"
	}
	if t.W%4 == 0 {
		return fmt.Sprintf("#x%0*x", int(t.W/4), t.K)
	}
	return fmt.Sprintf("#b%0*b", int(t.W), t.K)
}

// head prints the operator application with the given argument names.
func (t *Term) expr(arg func(*Term) string) string {
	switch t.Op {
	case OpConst:
		return constString(t)
	case OpVar:
		return t.Name
	case OpExtract:
		return fmt.Sprintf("((_ extract %d %d) %s)", t.K>>8, t.K&0xff, arg(t.A[0]))
	case OpZext:
		return fmt.Sprintf("((_ zero_extend %d) %s)", t.K, arg(t.A[0]))
	case OpSext:
		return fmt.Sprintf("((_ sign_extend %d) %s)", t.K, arg(t.A[0]))
	}
	var sb strings.Builder
	sb.WriteByte('(')
	sb.WriteString(opNames[t.Op])
	for _, a := range t.A {
		if a != nil {
			sb.WriteByte(' ')
			sb.WriteString(arg(a))
		}
	}
	sb.WriteByte(')')
	return sb.String()
}

// String renders the term as a tree (debug / samples; may be large).
func (t *Term) String() string {
	if t.size > 400 {
		return fmt.Sprintf("<term#%d size=%d>", t.ID, t.size)
	}
	return t.expr(func(a *Term) string { return a.String() })
}

// Eval evaluates a term under an assignment of variables (by name); used to validate models.
func (t *Term) Eval(env map[string]uint64, memo map[*Term]uint64) uint64 {
	if v, ok := memo[t]; ok {
		return v
	}
	var r uint64
	a := func(i int) uint64 { return t.A[i].Eval(env, memo) }
	b2u := func(b bool) uint64 {
		if b {
			return 1
		}
		return 0
	}
	switch t.Op {
	case OpConst:
		r = t.K
	case OpVar:
		r = env[t.Name] & mask(maxw(t.W))
	case OpNot:
		r = 1 - a(0)
	case OpAnd:
		r = a(0) & a(1)
	case OpOr:
		r = a(0) | a(1)
	case OpEq:
		r = b2u(a(0) == a(1))
	case OpUlt:
		r = b2u(a(0) < a(1))
	case OpUle:
		r = b2u(a(0) <= a(1))
	case OpSlt:
		r = b2u(sext64(a(0), t.A[0].W) < sext64(a(1), t.A[1].W))
	case OpSle:
		r = b2u(sext64(a(0), t.A[0].W) <= sext64(a(1), t.A[1].W))
	case OpBNot:
		r = ^a(0) & mask(t.W)
	case OpNeg:
		r = -a(0) & mask(t.W)
	case OpExtract:
		hi, lo := uint8(t.K>>8), uint8(t.K&0xff)
		r = (a(0) >> lo) & mask(hi-lo+1)
	case OpZext:
		r = a(0)
	case OpSext:
		r = uint64(sext64(a(0), t.A[0].W)) & mask(t.W)
	case OpConcat:
		r = a(0)<<t.A[1].W | a(1)
	case OpIte:
		if a(0) != 0 {
			r = a(1)
		} else {
			r = a(2)
		}
	case OpSdiv, OpSrem:
		x, y := a(0), a(1)
		if y == 0 {
			if t.Op == OpSrem {
				r = x
			} else if sext64(x, t.W) < 0 {
				r = 1
			} else {
				r = mask(t.W)
			}
		} else {
			r, _ = foldBin(t.Op, x, y, t.W)
		}
	default:
		r, _ = foldBin(t.Op, a(0), a(1), t.W)
	}
	memo[t] = r
	return r
}

func maxw(w uint8) uint8 {
	if w == 0 {
		return 1
	}
	return w
}
