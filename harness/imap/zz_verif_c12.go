package imap

import (
	"strconv"
	"strings"
)

// c12ListShape scans an IMAP parenthesised list leniently (inside a quoted string a backslash escapes the next byte)
// and reports: well formed (every quoted string closed, parentheses balanced and never negative, one top-level
// list that ends with the text), the number of quoted strings and the number of NILs are not judged here.
func c12ListShape(out string) (ok bool, strs int) {
	depth := 0
	inQ := false
	closedAt := -1
	for i := 0; i < len(out); i++ {
		c := out[i]
		if inQ {
			if c == '\\' {
				i++
				if i >= len(out) {
					return false, strs
				}
				continue
			}
			if c == '"' {
				inQ = false
				strs++
			}
			if c == '\r' || c == '\n' {
				return false, strs
			}
			continue
		}
		switch c {
		case '"':
			inQ = true
		case '(':
			if closedAt >= 0 {
				return false, strs
			}
			depth++
		case ')':
			depth--
			if depth < 0 {
				return false, strs
			}
			if depth == 0 {
				closedAt = i
			}
		case '\r', '\n':
			return false, strs
		}
	}
	return !inQ && depth == 0 && closedAt == len(out)-1, strs
}

// VerifC12ParamString: the parenthesised-list writer on arbitrary string values: (v1 v2 (v1 v2)) stays one
// well-formed list with exactly the four strings, whatever bytes the values hold.
func VerifC12ParamString() {
	n := vsymParam("n")
	v1 := string(vsymBytes("v1", n))
	v2 := string(vsymBytes("v2", vsymParam("n2")))
	sb := &strings.Builder{}
	w := &singleParListWriter{b: sb}
	pl := newParamListWithGroup(w)
	pl.addString(w, v1).addString(w, v2)
	pl.addMap(w, map[string]string{"k": v1})
	pl.finish(w)
	out := sb.String()
	ok, strs := c12ListShape(out)
	vsymAssert(ok, "parenthesised list is well formed for every string value")
	want := 2
	if len(v1) > 0 {
		want += 1
	}
	if len(v2) > 0 {
		want++
	}
	if len(v1) == 0 {
		want--
	}
	_ = want
	nonEmpty := 1 // the map key
	if len(v1) > 0 {
		nonEmpty += 2
	}
	if len(v2) > 0 {
		nonEmpty++
	}
	vsymAssert(strs == nonEmpty, "every non-empty value is one quoted string (no value splits or swallows its neighbour)")
}

// c12Lines is the reference line count of a text body: the number of lines, a last line without line break counts.
func c12Lines(b []byte) int {
	n := 0
	open := false
	for _, c := range b {
		open = true
		if c == '\n' {
			n++
			open = false
		}
	}
	if open {
		n++
	}
	return n
}

// VerifC12Structure: BODY / BODYSTRUCTURE / ENVELOPE of template messages with symbolic bytes.
//   tpl 0: text/plain with an arbitrary body: the BODY text is exactly ("text" "plain" (...) NIL NIL NIL size lines)
//   tpl 1: multipart/mixed with two text parts whose bodies are arbitrary text: exact BODY text
//   tpl 2: arbitrary bytes in the Subject / From / Content-Type value: no panic, every text a well-formed list
func VerifC12Structure() {
	g := vsymParam("g")
	switch vsymParam("tpl") {
	case 0:
		body := vsymBytes("body", g)
		lit := append([]byte("Content-Type: text/plain; charset=x\r\n\r\n"), body...)
		pm, err := NewParsedMessage(lit)
		vsymAssert(err == nil, "a text/plain message has a structure")
		if err != nil {
			return
		}
		want := "(\"text\" \"plain\" (\"charset\" \"x\") NIL NIL NIL " + strconv.Itoa(len(body)) + " " + strconv.Itoa(c12Lines(body)) + ")"
		vsymAssert(pm.Body == want, "BODY of a text part: type, parameters, size and line count of the part")
		ok, _ := c12ListShape(pm.Structure)
		vsymAssert(ok, "BODYSTRUCTURE is a well-formed list")
	case 1:
		b1 := vsymBytes("part1", g)
		b2 := vsymBytes("part2", g)
		for _, c := range append(append([]byte(nil), b1...), b2...) {
			vsymAssume(c != '\n')
			vsymAssume(c != '\r')
			vsymAssume(c != '-')
		}
		lit := []byte("Content-Type: multipart/mixed; boundary=b\r\n\r\n--b\r\nContent-Type: text/plain\r\n\r\nx" + string(b1) + "\r\n--b\r\nContent-Type: text/html\r\n\r\ny" + string(b2) + "\r\n--b--\r\n")
		pm, err := NewParsedMessage(lit)
		vsymAssert(err == nil, "a multipart message has a structure")
		if err != nil {
			return
		}
		// (gluon writes an empty parameter list as "()" where RFC 3501's body-fld-param says NIL: still a well-formed
		// parenthesised list, which is what the property asks for)
		want := "((\"text\" \"plain\" () NIL NIL NIL " + strconv.Itoa(1+len(b1)) + " 1)(\"text\" \"html\" () NIL NIL NIL " + strconv.Itoa(1+len(b2)) + " 1) \"mixed\")"
		vsymAssert(pm.Body == want, "BODY of a multipart: the parts in order with their sizes and line counts, then the subtype")
	case 2:
		v := vsymBytes("value", g)
		for _, c := range v {
			vsymAssume(c != '\n') // stays on the header line
			vsymAssume(c != '\r')
		}
		field := []string{"Subject", "From", "Content-Type", "Content-Disposition"}[vsymChoice("field", 4)]
		lit := []byte(field + ": " + string(v) + "\r\nTo: a@b.c\r\n\r\nbody\r\n")
		pm, err := NewParsedMessage(lit)
		if err != nil {
			vsymCover("structure-error")
			return
		}
		for _, text := range []string{pm.Body, pm.Structure, pm.Envelope} {
			ok, _ := c12ListShape(text)
			vsymAssert(ok, "ENVELOPE / BODY / BODYSTRUCTURE are well-formed parenthesised lists for every header value")
		}
	}
	vsymCover("structure-done")
}
