package imap

import "time"

// VerifC04Generator: one step of EpochUIDValidityGenerator.Generate from an arbitrary state (last value) at an
// arbitrary instant.  On success the result is strictly greater than every earlier value (= lastUID, by induction
// over calls) and becomes the new lastUID; on error lastUID is unchanged.
// Bound: the catch-up loop runs lastUID-timestamp+1 times; gaps above `gap` are outside the bound.
func VerifC04Generator() {
	gap := vsymParam("gap")
	// the generator's epoch lies `secs` seconds before now: the elapsed time Generate computes is an arbitrary value
	// (also beyond the 32-bit range), whatever the real clock says - so that a counterexample replays natively
	t0 := time.Now()
	secs := vsymInt64("secs")
	vsymAssume(secs >= 0)
	vsymAssume(secs <= 1<<33)
	g := NewEpochUIDValidityGenerator(time.Unix(t0.Unix()-secs, 0))
	last := vsymUint32("lastUID")
	g.lastUID = last
	if gap >= 0 {
		vsymAssume(int64(last)-secs <= int64(gap))
	} // gap < 0: any distance between state and clock; the catch-up loop is cut at the unwinding limit (declared)
	uid, err := g.Generate()
	// the call itself takes at most two seconds of clock time (stated assumption; keeps the replay faithful)
	vsymAssume(time.Now().Unix()-t0.Unix() <= 2)
	if err != nil {
		vsymCover("generator-error")
		vsymAssert(g.lastUID == last, "a failed Generate leaves the generator state unchanged")
		return
	}
	vsymCover("generator-ok")
	vsymAssert(uint32(uid) > last, "UIDVALIDITY strictly greater than every earlier value")
	vsymAssert(g.lastUID == uint32(uid), "the generator remembers the value it handed out")
}

// VerifC04Incremental: the incremental generator and UID.Add.
func VerifC04Incremental() {
	g := NewIncrementalUIDValidityGenerator()
	c := vsymUint32("counter")
	vsymAssume(c < 4294967295)
	g.counter = c
	uid, err := g.Generate()
	vsymAssert(err == nil && uint32(uid) == c+1 && uint32(g.GetValue()) == c+1, "incremental generator hands out strictly increasing values")
	u := vsymUint32("uid")
	n := vsymUint32("n")
	vsymAssume(uint64(u)+uint64(n) <= 4294967295)
	vsymAssert(uint32(UID(u).Add(n)) == u+n && uint64(UID(u).Add(n)) == uint64(u)+uint64(n), "UID.Add does not wrap below the 32-bit limit")
}
