package session

import (
	"context"
	"io"
	"net"
	"strings"

	"github.com/ProtonMail/gluon/events"
	"github.com/ProtonMail/gluon/internal/backend"
	"github.com/ProtonMail/gluon/version"
)

// verifChunkConn serves a byte script in pieces: a Read never crosses one of the cut positions.
type verifChunkConn struct {
	net.Conn
	in    []byte
	pos   int
	cuts  []int
	lines []string
}

func (c *verifChunkConn) Read(b []byte) (int, error) {
	if c.pos >= len(c.in) {
		return 0, io.EOF
	}
	end := len(c.in)
	for _, k := range c.cuts {
		if k > c.pos && k < end {
			end = k
		}
	}
	n := copy(b, c.in[c.pos:end])
	c.pos += n
	return n, nil
}
func (c *verifChunkConn) Write(b []byte) (int, error) {
	c.lines = append(c.lines, strings.TrimRight(string(b), "\r\n"))
	return len(b), nil
}
func (c *verifChunkConn) Close() error { return nil }

// VerifC10WireChunks: "the result does not depend on how the bytes are split across network reads", through the real
// stack (net.Conn -> bufio.Reader -> input collector -> scanner -> parser -> session loop): a fixed conversation -
// LOGIN with both credentials as synchronising literals, SELECT with a quoted mailbox, UID FETCH with a section list,
// STORE with a flag list, LOGOUT - is delivered with one [two] cuts at arbitrary positions; the session writes exactly what it
// writes when everything arrives at once.
func VerifC10WireChunks() {
	script := "a LOGIN {5}\r\nalice {3}\r\npw1\r\nb SELECT \"INBOX\"\r\nc UID FETCH 1:* (UID BODY.PEEK[HEADER.FIELDS (To From)])\r\nd STORE 1 +FLAGS.SILENT (\\Seen \\Flagged)\r\nz LOGOUT\r\n"
	run := func(cuts []int) []string {
		conn := &verifChunkConn{in: []byte(script), cuts: cuts}
		s := New(conn, backend.VerifNewBackendUsers(), 1, version.Info{}, nil, make(chan events.Event, 64), 0, nil)
		err := s.serve(context.Background())
		vsymSched()
		vsymAssert(err == nil, "the session loop ends without an error after LOGOUT")
		return conn.lines
	}
	want := run(nil)
	vsymAssert(len(want) > 0 && strings.HasPrefix(want[len(want)-1], "z OK"), "the conversation is served to the end")
	cuts := []int{1 + vsymChoice("cut1", len(script)-1)}
	if vsymParam("cuts") == 2 {
		cuts = append(cuts, 1+vsymChoice("cut2", len(script)-1))
	}
	got := run(cuts)
	vsymCover("chunked-run")
	vsymAssert(len(got) == len(want), "the same number of response lines however the bytes are split across reads")
	if len(got) == len(want) {
		for i := range want {
			vsymAssert(got[i] == want[i], "the same responses however the bytes are split across reads")
		}
	}
}
