package response

import "github.com/ProtonMail/gluon/imap"

// VerifDecoded is what a client can read off an untagged response (decode helper for harnesses in other packages).
type VerifDecoded struct {
	Kind          int  // 0 other, 1 EXISTS, 2 EXPUNGE, 3 FETCH, 4 RECENT, 5 tagged OK
	ExpungeIssued bool // tagged OK carrying [EXPUNGEISSUED]
	N             uint32
	HasFlags      bool
	Flags         imap.FlagSet
	HasUID        bool
	UID           imap.UID
}

func VerifDecode(r Response) VerifDecoded {
	switch r := r.(type) {
	case *exists:
		return VerifDecoded{Kind: 1, N: uint32(r.count)}
	case *expunge:
		return VerifDecoded{Kind: 2, N: uint32(r.seq)}
	case *recent:
		return VerifDecoded{Kind: 4, N: r.count}
	case *ok:
		d := VerifDecoded{}
		if r.tag != "*" {
			d.Kind = 5
		}
		for _, it := range r.items {
			if _, is := it.(*itemExpungeIssued); is {
				d.ExpungeIssued = true
			}
		}
		return d
	case *fetch:
		d := VerifDecoded{Kind: 3, N: uint32(r.seq)}
		for _, it := range r.items {
			switch it := it.(type) {
			case *itemFlags:
				d.HasFlags = true
				d.Flags = it.flags
			case *itemUID:
				d.HasUID = true
				d.UID = it.uid
			}
		}
		return d
	}
	return VerifDecoded{}
}

// VerifDecodeCopyUID expands a COPYUID response code the way a client reads it (RFC 4315): the n-th UID of the
// source set corresponds to the n-th UID of the destination set, each set enumerated in the order it is written.
func VerifDecodeCopyUID(it Item) (uidValidity imap.UID, src, dst []imap.UID, ok bool) {
	c, is := it.(*itemCopyUID)
	if !is || c == nil {
		return 0, nil, nil, false
	}
	expand := func(s imap.SeqSet) []imap.UID {
		var out []imap.UID
		for _, v := range s {
			for u := uint32(v.Begin); ; u++ {
				out = append(out, imap.UID(u))
				if u >= uint32(v.End) || len(out) > 64 {
					break
				}
			}
		}
		return out
	}
	return c.uidValidity, expand(c.sourceSet), expand(c.destSet), true
}
