package state

import (
	"bytes"
	"errors"

	"github.com/ProtonMail/gluon/connector"
	"github.com/ProtonMail/gluon/imap"
	"github.com/ProtonMail/gluon/imap/command"
	"github.com/ProtonMail/gluon/internal/ids"
	"github.com/ProtonMail/gluon/limits"
)

var verifLiterals = []string{
	"To: a@b.c\r\nFrom: d@e.f\r\nSubject: one\r\n\r\nbody one\r\n",
	"To: a@b.c\r\nFrom: d@e.f\r\nSubject: two\r\n\r\nbody two\r\n",
}

// verifCaseVariant returns s with a symbolic letter case for every ASCII letter.
func verifCaseVariant(s string) string {
	out := make([]byte, len(s))
	for i := 0; i < len(s); i++ {
		c := s[i]
		if c >= 'a' && c <= 'z' || c >= 'A' && c <= 'Z' {
			lower := c | 0x20
			upper := c &^ 0x20
			out[i] = byte(vsymIteInt(vsymBool("upper"), int(upper), int(lower)))
		} else {
			out[i] = c
		}
	}
	return string(out)
}

// VerifC20Append: a message handed to APPEND is never silently lost.
func VerifC20Append() {
	k := vsymParam("k")
	w := verifNewWorld(limits.DefaultLimits())
	w.conn.faultBudget = vsymParam("faults")
	w.conn.sizeErr = connector.ErrMessageSizeExceedsLimits
	a := w.db.AddBox("A", "mb-A", 2)
	rec := w.db.BoxByID(w.user.recovery.InternalID)
	st := w.newState(1)
	ctx := ctxFor(st)
	var mboxA *Mailbox
	if err := st.Select(ctx, "A", func(m *Mailbox) error { mboxA = m; return nil }); err != nil {
		panic(err)
	}
	recovered := [2]int{} // how many copies of each literal the recovery mailbox must hold
	for step := 0; step < k; step++ {
		li := vsymChoice("literal", 2)
		lit := []byte(verifLiterals[li])
		rowsA := len(a.Rows)
		rowsRec := len(rec.Rows)
		uid, err := mboxA.Append(ctx, lit, imap.NewFlagSet(), time0())
		switch {
		case err == nil:
			vsymCover("append-ok")
			vsymAssert(len(a.Rows) == rowsA+1, "OK: the target mailbox gained exactly one message")
			r := a.Rows[len(a.Rows)-1]
			vsymAssert(r.UID == uid, "OK: the message is found under the announced UID")
			stored, gerr := w.store.Get(r.Msg)
			vsymAssert(gerr == nil, "OK: the message bytes are in the store")
			if gerr == nil {
				vsymAssert(bytes.HasSuffix(stored, lit), "OK: the stored bytes are the appended message (after the ID header line)")
			}
			vsymAssert(len(rec.Rows) == rowsRec, "OK: nothing goes to the recovery mailbox")
		case errors.Is(err, connector.ErrMessageSizeExceedsLimits):
			vsymCover("append-too-large")
			vsymAssert(len(a.Rows) == rowsA && len(rec.Rows) == rowsRec, "size rejection stores nothing")
		default:
			vsymCover("append-failed")
			vsymAssert(len(a.Rows) == rowsA, "failed APPEND leaves the target mailbox unchanged")
			if recovered[li] == 0 {
				vsymAssert(len(rec.Rows) == rowsRec+1, "rejected message is kept in the recovery mailbox")
				if len(rec.Rows) == rowsRec+1 {
					stored, gerr := w.store.Get(rec.Rows[len(rec.Rows)-1].Msg)
					vsymAssert(gerr == nil && bytes.Equal(stored, lit), "recovery mailbox holds the exact bytes")
				}
				recovered[li] = 1
			} else {
				vsymCover("append-failed-again")
				vsymAssert(len(rec.Rows) == rowsRec, "the same message is kept only once")
				vsymAssert(errors.Is(err, ErrKnownRecoveredMessage), "second rejection of the same bytes reports a known recovered message")
			}
		}
	}
	vsymAssert(len(rec.Rows) == recovered[0]+recovered[1], "recovery mailbox holds one copy per distinct rejected message")
}

// VerifC20Protected: the recovery mailbox is refused as target of APPEND / CREATE / RENAME / DELETE / COPY / MOVE
// for every letter case of its name, and a name that merely starts with it cannot be created.
func VerifC20Protected() {
	w := verifNewWorld(limits.DefaultLimits())
	a := w.db.AddBox("A", "mb-A", 2)
	w.addMessage(a, 1)
	st := w.newState(1)
	ctx := ctxFor(st)
	var mboxA *Mailbox
	if err := st.Select(ctx, "A", func(m *Mailbox) error { mboxA = m; return nil }); err != nil {
		panic(err)
	}
	name := verifCaseVariant(ids.GluonRecoveryMailboxName)
	boxes := len(w.db.Boxes)
	all := []command.SeqRange{{Begin: 1, End: 0}}
	var err error
	switch vsymChoice("op", 7) {
	case 0:
		err = st.AppendOnlyMailbox(ctx, name, func(m AppendOnlyMailbox, sel bool) error { return nil })
	case 1:
		err = st.Create(ctx, name)
	case 2:
		err = st.Create(ctx, name+"/child")
	case 3:
		_, err = st.Delete(ctx, name)
	case 4:
		if vsymChoice("renameDir", 2) == 0 {
			err = st.Rename(ctx, name, "other")
		} else {
			err = st.Rename(ctx, "A", name)
		}
	case 5:
		_, err = mboxA.Copy(ctx, all, name)
	case 6:
		_, err = mboxA.Move(ctx, all, name)
	}
	vsymAssert(err != nil, "operation on the recovery mailbox is refused")
	vsymAssert(errors.Is(err, ErrOperationNotAllowed), "refusal is ErrOperationNotAllowed")
	vsymAssert(len(w.db.Boxes) == boxes, "no mailbox created or deleted")
	rec := w.db.BoxByID(w.user.recovery.InternalID)
	vsymAssert(rec != nil && rec.Name == ids.GluonRecoveryMailboxName && len(rec.Rows) == 0, "recovery mailbox untouched")
	vsymAssert(len(a.Rows) == 1, "source mailbox untouched")
}

// ---- recovery cycle: APPEND failures, MOVE / COPY out of the recovery mailbox, re-APPEND of the same bytes ----

const verifLitUnhashable = "Content-Type: text/plain\r\nContent-Transfer-Encoding: base64\r\nSubject: three\r\n\r\nSGVsbG8\r\n"

// VerifC20Cycle: whatever the remote does, after a refused (non size) APPEND the bytes are in the recovery mailbox -
// also when the same bytes were recovered before and have been moved out since, when the literal carries the
// internal-ID header of a live message, and when the literal cannot be hashed.
func VerifC20Cycle() {
	k := vsymParam("k")
	w := verifNewWorld(limits.DefaultLimits())
	w.conn.faultBudget = vsymParam("faults")
	a := w.db.AddBox("A", "mb-A", 2)
	b := w.db.AddBox("B", "mb-B", 3)
	if vsymParam("drafts") == 1 { // the target is the Drafts mailbox: APPEND erases the ID header and always creates
		b.Attrs = []string{imap.AttrDrafts}
	}
	rec := w.db.BoxByID(w.user.recovery.InternalID)
	// a live message in A, stored with its internal-ID header (as FETCH BODY[] would return it)
	m0 := w.addMessage(a, 1)
	known := []byte(ids.InternalIDKey + ": " + m0.InternalID.String() + "\r\n" + verifLiterals[0])
	w.store.data[m0.InternalID] = known
	lits := [][]byte{[]byte(verifLiterals[0]), []byte(verifLiterals[1]), known, []byte(verifLitUnhashable)}

	st := w.newState(1)
	ctx := ctxFor(st)
	var mboxB *Mailbox
	if err := st.Select(ctx, "B", func(m *Mailbox) error { mboxB = m; return nil }); err != nil {
		panic(err)
	}
	st2 := w.newState(2)
	ctx2 := ctxFor(st2)
	var mboxRec *Mailbox
	if err := st2.Select(ctx2, ids.GluonRecoveryMailboxName, func(m *Mailbox) error { mboxRec = m; return nil }); err != nil {
		panic(err)
	}
	all := []command.SeqRange{{Begin: 1, End: 0}}
	// "the same message": gluon identifies messages by a hash that ignores the internal-ID header, so literal 2 is
	// literal 0; the literal that cannot be hashed cannot be identified at all (kept again every time)
	class := []int{0, 1, 0, 3}
	inRec := func(li int) int {
		n := 0
		for _, r := range rec.Rows {
			stored, err := w.store.Get(r.Msg)
			if err != nil {
				continue
			}
			for lj := range lits {
				if class[lj] == class[li] && bytes.Equal(stored, lits[lj]) {
					n++
					break
				}
			}
		}
		return n
	}
	for step := 0; step < k; step++ {
		switch vsymChoice("event", 3) {
		case 0: // APPEND to B
			li := vsymChoice("literal", len(lits))
			lit := lits[li]
			rowsB := len(b.Rows)
			had := inRec(li)
			uid, err := mboxB.Append(ctx, lit, imap.NewFlagSet(), time0())
			if err == nil {
				vsymCover("cycle-append-ok")
				found := false
				for _, r := range b.Rows {
					if r.UID == uid {
						stored, gerr := w.store.Get(r.Msg)
						found = gerr == nil && bytes.HasSuffix(stored, []byte(verifLiterals[0])) == (class[li] == 0) && (class[li] == 0 || bytes.HasSuffix(stored, lit))
					}
				}
				vsymAssert(found, "OK: the message is in the target mailbox under the announced UID")
				vsymAssert(len(b.Rows) >= rowsB, "OK: the target mailbox loses nothing")
				vsymAssert(inRec(li) == had, "OK: nothing goes to the recovery mailbox")
			} else {
				vsymCover("cycle-append-refused")
				vsymAssert(len(b.Rows) == rowsB, "refused APPEND leaves the target mailbox unchanged")
				if had == 0 {
					vsymAssert(inRec(li) == 1, "refused message is kept (byte for byte) in the recovery mailbox")
				} else if class[li] == 3 {
					vsymAssert(inRec(li) >= had, "a refused message stays in the recovery mailbox")
				} else {
					vsymAssert(inRec(li) == had, "a message the recovery mailbox already holds is kept once")
				}
			}
		case 1, 2: // MOVE / COPY everything out of the recovery mailbox into A
			w.deliverAll(1)
			if _, err := st2.flushResponses(ctx2, true); err != nil {
				vsymAssert(false, "flush failed")
			}
			if len(rec.Rows) == 0 {
				vsymAssume(false)
			}
			rowsA, rowsRec := len(a.Rows), len(rec.Rows)
			var err error
			move := vsymChoice("move", 2) == 1
			if move {
				_, err = mboxRec.Move(ctx2, all, "A")
			} else {
				_, err = mboxRec.Copy(ctx2, all, "A")
			}
			if err == nil {
				vsymCover("cycle-moved-out")
				vsymAssert(len(a.Rows) == rowsA+rowsRec, "recovered messages arrive in the normal mailbox")
				if move {
					vsymAssert(len(rec.Rows) == 0, "MOVE empties the recovery mailbox")
				} else {
					vsymAssert(len(rec.Rows) == rowsRec, "COPY keeps the recovered messages")
				}
			} else {
				vsymAssert(len(a.Rows) == rowsA && len(rec.Rows) == rowsRec, "a failed MOVE/COPY out of the recovery mailbox changes nothing")
			}
		}
		// C07: whatever failed, every listed message still has its bytes (or a remote id to fetch them again)
		for _, box := range w.db.Boxes {
			for _, r := range box.Rows {
				_, gerr := w.store.Get(r.Msg)
				vsymAssert(gerr == nil || !ids.IsRecoveredRemoteMessageID(r.Remote), "every listed message keeps its bytes across failed commands")
			}
		}
		// the recovery mailbox is listed exactly while it holds messages
		var listed map[string]Match
		if err := st.List(ctx, "", "*", false, func(m map[string]Match) error { listed = m; return nil }); err != nil {
			vsymAssert(false, "LIST failed")
		}
		_, shown := listed[ids.GluonRecoveryMailboxName]
		vsymAssert(shown == (len(rec.Rows) > 0), "the recovery mailbox is listed exactly while it is non-empty")
	}
}

// VerifC07GetLiteral: a listed message whose cache file is missing or unreadable (truncated, corrupt) is served from
// the connector again and re-cached, unless it only exists locally (recovered message) or the connector fails.
func VerifC07GetLiteral() {
	w := verifNewWorld(limits.DefaultLimits())
	w.conn.faultBudget = 1
	a := w.db.AddBox("A", "mb-A", 2)
	m := w.addMessage(a, 1)
	lit := []byte(verifLiterals[0])
	w.conn.literals = map[imap.MessageID][]byte{m.RemoteID: lit}
	recovered := vsymChoice("recovered", 2) == 1
	if recovered {
		m.RemoteID = ids.NewRecoveredRemoteMessageID(m.InternalID)
	}
	good := []byte(ids.InternalIDKey + ": " + m.InternalID.String() + "\r\n" + verifLiterals[0])
	switch vsymChoice("cache", 3) {
	case 0:
		w.store.data[m.InternalID] = good
	case 1: // missing
	case 2: // present but unreadable
		w.store.data[m.InternalID] = good[:len(good)/2]
		w.store.corrupt[m.InternalID] = true
	}
	st := w.newState(1)
	got, err := st.getLiteral(ctxFor(st), m)
	if err == nil {
		vsymCover("literal-served")
		vsymAssert(bytes.HasSuffix(got, lit), "a served message has its exact bytes")
		again, gerr := w.store.Get(m.InternalID)
		vsymAssert(gerr == nil && bytes.Equal(again, got), "and is readable from the cache afterwards")
		return
	}
	vsymCover("literal-failed")
	vsymAssert(recovered || w.conn.faults > 0, "a message the connector can deliver is served even if its cache file is missing or unreadable")
}
