package imap

import (
	"strings"
)

// c12ListShape scans an IMAP parenthesised list leniently (inside a quoted string a backslash escapes the next byte)
// and reports: well formed (every quoted string closed, parentheses balanced and never negative, one top-level
// list that ends with the text), the number of quoted strings and the number of NILs are not judged here.
func c12ListShape(out string) (ok bool, strs int) {
	depth := 0
	inQ := false
	closedAt := -1
	for i := 0; i < len(out); i++ {
		c := out[i]
		if inQ {
			if c == '\\' {
				i++
				if i >= len(out) {
					return false, strs
				}
				continue
			}
			if c == '"' {
				inQ = false
				strs++
			}
			if c == '\r' || c == '\n' {
				return false, strs
			}
			continue
		}
		switch c {
		case '"':
			inQ = true
		case '(':
			if closedAt >= 0 {
				return false, strs
			}
			depth++
		case ')':
			depth--
			if depth < 0 {
				return false, strs
			}
			if depth == 0 {
				closedAt = i
			}
		case '\r', '\n':
			return false, strs
		}
	}
	return !inQ && depth == 0 && closedAt == len(out)-1, strs
}

// VerifC12ParamString: the parenthesised-list writer on arbitrary string values: (v1 v2 (v1 v2)) stays one
// well-formed list with exactly the four strings, whatever bytes the values hold.
func VerifC12ParamString() {
	n := vsymParam("n")
	v1 := string(vsymBytes("v1", n))
	v2 := string(vsymBytes("v2", vsymParam("n2")))
	sb := &strings.Builder{}
	w := &singleParListWriter{b: sb}
	pl := newParamListWithGroup(w)
	pl.addString(w, v1).addString(w, v2)
	pl.addMap(w, map[string]string{"k": v1})
	pl.finish(w)
	out := sb.String()
	ok, strs := c12ListShape(out)
	vsymAssert(ok, "parenthesised list is well formed for every string value")
	want := 2
	if len(v1) > 0 {
		want += 1
	}
	if len(v2) > 0 {
		want++
	}
	if len(v1) == 0 {
		want--
	}
	_ = want
	nonEmpty := 1 // the map key
	if len(v1) > 0 {
		nonEmpty += 2
	}
	if len(v2) > 0 {
		nonEmpty++
	}
	vsymAssert(strs == nonEmpty, "every non-empty value is one quoted string (no value splits or swallows its neighbour)")
}
