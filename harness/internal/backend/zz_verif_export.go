package backend

import (
	"context"
	"errors"
	"time"

	"github.com/ProtonMail/gluon/connector"
	"github.com/ProtonMail/gluon/imap"
	"github.com/ProtonMail/gluon/limits"
	"github.com/sirupsen/logrus"
)

// VerifNewBackend returns a Backend that only knows its hierarchy delimiter (for session-level harnesses).
func VerifNewBackend(delim string) *Backend {
	return &Backend{delim: delim}
}

type verifCredConn struct {
	verifConnBase
	name, pass string
}

func (c *verifCredConn) Authorize(ctx context.Context, username string, password []byte) bool {
	return username == c.name && string(password) == c.pass
}

func (c *verifCredConn) GetMailboxVisibility(ctx context.Context, id imap.MailboxID) imap.MailboxVisibility {
	return imap.Visible
}

// the remote side accepts every change a session makes and reports nothing back
func (c *verifCredConn) AddMessagesToMailbox(ctx context.Context, cache connector.IMAPStateWrite, messageIDs []imap.MessageID, mboxID imap.MailboxID) error {
	return nil
}
func (c *verifCredConn) RemoveMessagesFromMailbox(ctx context.Context, cache connector.IMAPStateWrite, messageIDs []imap.MessageID, mboxID imap.MailboxID) error {
	return nil
}
func (c *verifCredConn) MoveMessages(ctx context.Context, cache connector.IMAPStateWrite, messageIDs []imap.MessageID, mboxFromID, mboxToID imap.MailboxID) (bool, error) {
	return true, nil
}
func (c *verifCredConn) MarkMessagesSeen(ctx context.Context, cache connector.IMAPStateWrite, messageIDs []imap.MessageID, seen bool) error {
	return nil
}
func (c *verifCredConn) MarkMessagesFlagged(ctx context.Context, cache connector.IMAPStateWrite, messageIDs []imap.MessageID, flagged bool) error {
	return nil
}
func (c *verifCredConn) MarkMessagesForwarded(ctx context.Context, cache connector.IMAPStateWrite, messageIDs []imap.MessageID, forwarded bool) error {
	return nil
}

var verifCredConnN int

// VerifCreateFails: how many of the next CreateMessage calls the remote side refuses (set by a harness)
var VerifCreateFails int

// CreateMessage: the remote side accepts an APPEND and returns the literal unchanged under a fresh remote id
func (c *verifCredConn) CreateMessage(ctx context.Context, cache connector.IMAPStateWrite, mboxID imap.MailboxID, literal []byte, flags imap.FlagSet, date time.Time) (imap.Message, []byte, error) {
	if VerifCreateFails > 0 {
		VerifCreateFails--
		return imap.Message{}, nil, errors.New("verif: the remote side refuses the message")
	}
	verifCredConnN++
	return imap.Message{ID: imap.MessageID("rm-appended-" + string(rune('0'+verifCredConnN%10))), Flags: flags, Date: date}, literal, nil
}

// VerifInboxFlags: flags of the message each user's INBOX holds (set by a harness before it builds the backend).
var VerifInboxFlags []string

// VerifNewBackendUsers returns a Backend (built by New) with two users, "alice"/"pw1" (user id "id-alice") and
// "bob"/"pw2" (user id "id-bob"); each has an INBOX holding one message in its own index.
func VerifNewBackendUsers() *Backend {
	b, err := New("", "", nil, "/", 3600*1000000000, limits.DefaultLimits(), nil, nil)
	if err != nil {
		panic(err)
	}
	b.log = logrus.WithField("pkg", "gluon/backend")
	for _, cr := range [][3]string{{"alice", "pw1", "id-alice"}, {"bob", "pw2", "id-bob"}} {
		u, d, st := verifUser()
		u.userID = cr[2]
		u.connector = &verifCredConn{name: cr[0], pass: cr[1]}
		box := d.AddBox("INBOX", imap.MailboxID("mb-inbox-"+cr[0]), 2)
		id := imap.NewInternalMessageID()
		d.AddMsg(id, imap.MessageID("rm-"+cr[0]), VerifInboxFlags...)
		box.AddRow(id, imap.MessageID("rm-"+cr[0]), 1, false, false)
		st.data[id] = []byte("X-Pm-Gluon-Id: " + id.String() + "\r\n" + verifLit1)
		b.users[cr[2]] = u
	}
	return b
}
