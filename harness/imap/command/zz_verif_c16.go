package command

// verifDigits returns n symbolic decimal digits followed by the given terminator bytes, and the
// mathematical value of the digit string together with a flag saying it does not fit in 63 bits.
//
// The value is Horner's rule in wrapping 64-bit arithmetic plus a separate "does not fit" flag computed
// without overflow (compare before multiplying).
func verifDigits(n int, term string) (buf []byte, val int, over bool) {
	buf = make([]byte, 0, n+len(term))
	const k = 922337203685477580 // MaxInt64 / 10 ; MaxInt64 % 10 == 7
	for i := 0; i < n; i++ {
		d := vsymByte("digit")
		vsymAssume(d >= '0')
		vsymAssume(d <= '9')
		buf = append(buf, d)
		dv := int(d) - int('0')
		over = vsymOr(over, vsymOr(val > k, vsymAnd(val == k, dv > 7)))
		val = val*10 + dv
	}
	buf = append(buf, term...)
	return
}

// VerifC16Number: rfcparser.ParseNumber returns the mathematical value of the digit string or an error,
// never a different number (digits of any length up to the bound; 20 digits exceed 64 bits).
func VerifC16Number() {
	n := vsymParam("digits")
	buf, val, over := verifDigits(n, " ")
	p, _ := verifParser(buf)
	if err := p.Advance(); err != nil {
		panic(err)
	}
	got, err := p.ParseNumber()
	if err != nil {
		vsymCover("number-rejected")
		return
	}
	vsymCover("number-accepted")
	vsymAssert(!over, "accepted number must fit the integer type (no silent wrap)")
	vsymAssert(got >= 0, "accepted number is non-negative")
	vsymAssert(got == val, "accepted number equals the value of its digits")
}

// VerifC16SeqNumber: ParseSeqSet on "<digits>" / "<digits>:<digits>": accepted numbers equal the text and fit
// the 32-bit range of RFC 3501 nz-number (so the narrowing to SeqID/UID on resolution is lossless).
func VerifC16SeqNumber() {
	n := vsymParam("digits")
	buf, val, over := verifDigits(n, "\r")
	p, _ := verifParser(buf)
	if err := p.Advance(); err != nil {
		panic(err)
	}
	set, err := ParseSeqSet(p)
	if err != nil {
		vsymCover("seq-rejected")
		return
	}
	vsymCover("seq-accepted")
	vsymAssert(len(set) == 1, "one element")
	vsymAssert(!over, "accepted sequence number did not overflow")
	vsymAssert(int(set[0].Begin) == val, "sequence number equals the value of its digits")
	vsymAssert(set[0].Begin == set[0].End, "single number is begin=end")
	vsymAssert(set[0].Begin > 0, "nz-number")
	vsymAssert(uint64(set[0].Begin) <= 4294967295, "sequence numbers / UIDs are 32-bit (RFC 3501 nz-number)")
}
