package session

import (
	"context"
	"strings"
	"time"

	"github.com/ProtonMail/gluon/imap"
	"github.com/ProtonMail/gluon/imap/command"
	"github.com/ProtonMail/gluon/internal/contexts"
	"github.com/ProtonMail/gluon/internal/response"
	"github.com/ProtonMail/gluon/internal/state"
)

// c1DecodeLine reads an untagged line off the wire the way a client does.
func c1DecodeLine(l string) response.VerifDecoded {
	f := strings.Fields(l)
	if len(f) < 3 || f[0] != "*" {
		return response.VerifDecoded{}
	}
	n := uint32(0)
	for _, c := range f[1] {
		if c < '0' || c > '9' {
			return response.VerifDecoded{}
		}
		n = n*10 + uint32(c-'0')
	}
	switch f[2] {
	case "EXISTS":
		return response.VerifDecoded{Kind: 1, N: n}
	case "EXPUNGE":
		return response.VerifDecoded{Kind: 2, N: n}
	case "RECENT":
		return response.VerifDecoded{Kind: 4, N: n}
	case "FETCH":
		d := response.VerifDecoded{Kind: 3, N: n}
		if i := strings.Index(l, "FLAGS ("); i >= 0 {
			rest := l[i+len("FLAGS ("):]
			if j := strings.Index(rest, ")"); j >= 0 {
				d.HasFlags = true
				d.Flags = imap.NewFlagSetFromSlice(strings.Fields(rest[:j]))
			}
		}
		if i := strings.Index(l, "UID "); i >= 0 {
			u := uint32(0)
			ok := false
			for _, c := range l[i+4:] {
				if c < '0' || c > '9' {
					break
				}
				u, ok = u*10+uint32(c-'0'), true
			}
			if ok {
				d.HasUID, d.UID = true, imap.UID(u)
			}
		}
		return d
	}
	return response.VerifDecoded{}
}

// VerifC01Idle: the observer is in IDLE (the real Session.handleIdle with its sender goroutine, State.Idle,
// PushResponder and - under the engine's cooperative goroutine model - the real update queue) while the other session
// of the user stores flags, expunges and copies; after every one of its commands the idling session's goroutines run
// until they block.  Then DONE.  The client mirror is fed with the lines written to the connection while idling and
// with the responses of a final NOOP; it must agree with the view the server then answers from.
func VerifC01Idle() {
	k := vsymParam("k")
	obs, ch, _ := verifSession()
	act, chAct, _ := verifSession()
	act.backend = obs.backend
	ctx := context.Background()
	for _, s := range []*Session{obs, act} {
		c := ch
		if s == act {
			c = chAct
		}
		if err := s.handleCommand(ctx, "l", &command.Login{UserID: "alice", Password: "pw1"}, c); err != nil {
			panic(err)
		}
		if err := s.handleCommand(state.NewStateContext(ctx, s.state), "s", &command.Select{Mailbox: "INBOX"}, c); err != nil {
			panic(err)
		}
	}
	obsCtx := contexts.NewDisableParallelismCtx(state.NewStateContext(ctx, obs.state), true)
	actCtx := contexts.NewDisableParallelismCtx(state.NewStateContext(ctx, act.state), true)
	for len(ch) > 0 {
		<-ch
	}
	wire := &verifWire{}
	obs.conn = wire
	if vsymParam("bulk") == 1 {
		obs.idleBulkTime = time.Hour // the bulk sender: ticks are symbolic under the engine, none fires natively
	}
	mirror := &c1Mirror{}
	{
		var view []state.VerifViewEntry
		_ = obs.state.Selected(ctx, func(mb *state.Mailbox) error { view = mb.VerifView(); return nil })
		for range view {
			mirror.ents = append(mirror.ents, c1Ent{})
		}
	}
	mirror.probe(obs.state)

	cmdCh := make(chan commandResult, 1)
	done := make(chan error, 1)
	go func() { done <- obs.handleIdle(obsCtx, "i", &command.Idle{}, cmdCh) }()
	vsymSched()
	one := func(seq int) []command.SeqRange {
		return []command.SeqRange{{Begin: command.SeqNum(seq), End: command.SeqNum(seq)}}
	}
	flagNames := []string{imap.FlagSeen, imap.FlagDeleted, imap.FlagFlagged}
	for step := 0; step < k; step++ {
		var cnt int
		_ = act.state.Selected(ctx, func(mb *state.Mailbox) error { cnt = mb.Count(); return nil })
		switch vsymChoice("event", 3) {
		case 0:
			if cnt == 0 {
				vsymAssume(false)
			}
			cmd := &command.Store{SeqSet: one(1 + vsymChoice("actSeq", cnt)), Action: []command.StoreAction{command.StoreActionAddFlags, command.StoreActionRemFlags}[vsymChoice("actAction", 2)], Flags: []string{flagNames[vsymChoice("actFlag", 3)]}}
			vsymAssert(act.handleCommand(actCtx, "b", cmd, chAct) == nil, "STORE by the other session is answered")
		case 1:
			if cnt == 0 {
				vsymAssume(false)
			}
			vsymAssert(act.handleCommand(actCtx, "b", &command.Store{SeqSet: one(1), Action: command.StoreActionAddFlags, Flags: []string{imap.FlagDeleted}, Silent: true}, chAct) == nil, "STORE by the other session is answered")
			vsymAssert(act.handleCommand(actCtx, "b", &command.Expunge{}, chAct) == nil, "EXPUNGE by the other session is answered")
		case 2:
			if cnt == 0 {
				vsymAssume(false)
			}
			vsymAssert(act.handleCommand(actCtx, "b", &command.Copy{SeqSet: one(1), Mailbox: "INBOX"}, chAct) == nil, "COPY by the other session is answered")
		}
		for len(chAct) > 0 {
			<-chAct
		}
		vsymSched()
	}
	cmdCh <- commandResult{command: command.Command{Tag: "i", Payload: &command.Done{}}}
	err := <-done
	vsymSched()
	vsymAssert(err == nil, "IDLE ... DONE is answered")
	vsymCover("idle-done")
	for _, l := range wire.lines {
		mirror.applyDecoded(c1DecodeLine(l))
	}
	if len(wire.lines) > 2 {
		vsymCover("idle-update-sent")
	}
	mirror.probe(obs.state)
	// a NOOP afterwards, then the comparison again
	obs.conn = nil
	vsymAssert(obs.handleCommand(obsCtx, "n", &command.Noop{}, ch) == nil, "NOOP is answered")
	for len(ch) > 0 {
		mirror.apply(<-ch)
	}
	mirror.probe(obs.state)
}
