package main

import (
	"regexp"
	"fmt"
	"go/token"
	"go/types"
	"strings"

	"golang.org/x/tools/go/ssa"
)

type intrinsicFn func(e *Exec, caller *frame, fn *ssa.Function, args []Value) Value

var intrinsics = map[string]intrinsicFn{}

// packages whose every function is a no-op returning zero values (logging, telemetry)
var noopPkgs = map[string]bool{
	"github.com/sirupsen/logrus":                        true,
	"github.com/ProtonMail/gluon/reporter":              true,
	"github.com/ProtonMail/gluon/profiling":             true,
	"github.com/ProtonMail/gluon/observability":         true,
	"github.com/ProtonMail/gluon/observability/metrics": true,
	"runtime/pprof":                                     true,
	"runtime/trace":                                     true,
	"runtime/debug":                                     true,
	"log":                                               true,
	"encoding/gob":                                      true,
}

// packages whose init must not be run (runtime internals, OS access)
func skipInit(path string) bool {
	switch path {
	case "runtime", "os", "syscall", "internal/cpu", "internal/bytealg", "internal/poll", "internal/godebug", "internal/godebugs",
		"github.com/sirupsen/logrus", "internal/syscall/unix", "internal/testlog", "os/signal", "net", "crypto/rand",
		"path/filepath", "os/exec", "os/user", "reflect", "internal/reflectlite", "internal/abi",
		"runtime/debug", "runtime/pprof", "runtime/trace", "log", "testing", "flag", "math/rand", "internal/race", "sync", "sync/atomic",
		"github.com/mattn/go-sqlite3", "database/sql", "database/sql/driver", "internal/intern", "unique", "internal/sysinfo",
		"golang.org/x/sys/unix", "internal/singleflight", "net/http", "crypto/tls", "crypto/x509", "vendor/golang.org/x/net/idna":
		return true
	}
	if strings.HasPrefix(path, "runtime/") || strings.HasPrefix(path, "internal/runtime/") || strings.HasPrefix(path, "crypto/") {
		return true
	}
	return false
}

func lookupIntrinsic(fn *ssa.Function, name, oname string) intrinsicFn {
	if f, ok := intrinsics[name]; ok {
		return f
	}
	if f, ok := intrinsics[oname]; ok {
		return f
	}
	base := fn.Name()
	if strings.HasPrefix(base, "vsym") && fn.Signature.Recv() == nil {
		if f, ok := vsymIntrinsics[base]; ok {
			return f
		}
		return func(e *Exec, caller *frame, fn *ssa.Function, args []Value) Value {
			panic("unknown vsym function " + fn.Name())
		}
	}
	var pkgPath string
	if fn.Pkg != nil {
		pkgPath = fn.Pkg.Pkg.Path()
	} else if recv := fn.Signature.Recv(); recv != nil {
		if n := namedOf(recv.Type()); n != nil && n.Obj().Pkg() != nil {
			pkgPath = n.Obj().Pkg().Path()
		}
	} else if fn.Object() != nil && fn.Object().Pkg() != nil {
		pkgPath = fn.Object().Pkg().Path()
	}
	if noopPkgs[pkgPath] {
		return noopIntrinsic
	}
	switch pkgPath {
	case "sync/atomic":
		return atomicIntrinsic(fn)
	case "internal/bytealg":
		if f, ok := intrinsics["bytealg."+base]; ok {
			return f
		}
	}
	return nil
}

func namedOf(t types.Type) *types.Named {
	for {
		switch tt := t.(type) {
		case *types.Pointer:
			t = tt.Elem()
		case *types.Named:
			return tt
		case *types.Alias:
			t = types.Unalias(tt)
		default:
			return nil
		}
	}
}

// noopIntrinsic returns zero values; pointer results are shared dummy non-nil objects so that
// chained calls like logrus.WithField(..).WithError(..).Debug() work.
func noopIntrinsic(e *Exec, caller *frame, fn *ssa.Function, args []Value) Value {
	e.intrHit["noop:"+pkgOf(fn)]++
	return e.dummyResult(fn)
}

func pkgOf(fn *ssa.Function) string {
	if fn.Pkg != nil {
		return fn.Pkg.Pkg.Path()
	}
	return "?"
}

func (e *Exec) dummyResult(fn *ssa.Function) Value {
	res := fn.Signature.Results()
	mk := func(t types.Type) Value {
		if p, ok := t.Underlying().(*types.Pointer); ok {
			cell := new(Value)
			*cell = zero(p.Elem())
			return cell
		}
		return zero(t)
	}
	switch res.Len() {
	case 0:
		return nil
	case 1:
		return mk(res.At(0).Type())
	}
	t := make(Tuple, res.Len())
	for i := range t {
		t[i] = mk(res.At(i).Type())
	}
	return t
}

// ---------- helpers ----------

func (e *Exec) goString(v Value) (string, bool) {
	s, ok := v.(Str)
	if !ok || s.b != nil || s.opaque {
		return "", false
	}
	return s.s, true
}

func (e *Exec) mustGoString(v Value, what string) string {
	s, ok := e.goString(v)
	if !ok {
		e.unsupported("%s needs a concrete string", what)
	}
	return s
}

func bytesOf(v Value) []Sc {
	switch x := v.(type) {
	case Str:
		r := make([]Sc, x.Len())
		for i := range r {
			r[i] = x.At(i)
		}
		return r
	case Slice:
		r := make([]Sc, len(x))
		for i := range r {
			r[i] = x[i].(Sc)
		}
		return r
	}
	panic(fmt.Sprintf("bytesOf %T", v))
}

var byteKI = kindInfo{w: 8, isInt: true}

func (e *Exec) errorIface(v Value) Iface { return v.(Iface) }

// callMethod invokes a method by name on a dynamic value if it exists.
func (e *Exec) callMethod(recv Iface, name string, args ...Value) (Value, bool) {
	if recv.t == nil {
		return nil, false
	}
	ms := e.P.prog.MethodSets.MethodSet(recv.t)
	for i := 0; i < ms.Len(); i++ {
		sel := ms.At(i)
		if sel.Obj().Name() == name {
			f := e.P.prog.MethodValue(sel)
			if f == nil {
				return nil, false
			}
			return e.callSSA(nil, token.NoPos, f, append([]Value{recv.v}, args...), nil), true
		}
	}
	return nil, false
}

// toGo converts a value to a native Go value for formatting; ok=false if it has symbolic content.
func (e *Exec) toGo(v Value, t types.Type) (interface{}, bool) {
	switch x := v.(type) {
	case nil:
		return nil, true
	case Sc:
		if x.T != nil {
			return nil, false
		}
		ki := basicInfo(t)
		switch {
		case ki.isBool:
			return x.C != 0, true
		case ki.signed:
			return int64(x.C), true
		default:
			return x.C, true
		}
	case Str:
		if x.b != nil || x.opaque {
			return nil, false
		}
		return x.s, true
	case float64:
		return x, true
	case float32:
		return x, true
	case Iface:
		if x.t == nil {
			return nil, true
		}
		if r, ok := e.callMethod(x, "Error"); ok {
			return e.toGo(r, types.Typ[types.String])
		}
		if r, ok := e.callMethod(x, "String"); ok {
			return e.toGo(r, types.Typ[types.String])
		}
		return e.toGo(x.v, x.t)
	case Slice:
		if t != nil {
			if st, ok := t.Underlying().(*types.Slice); ok {
				if b, ok := st.Elem().Underlying().(*types.Basic); ok && b.Kind() == types.Uint8 {
					bs := make([]byte, len(x))
					for i, el := range x {
						s := el.(Sc)
						if s.T != nil {
							return nil, false
						}
						bs[i] = byte(s.C)
					}
					return bs, true
				}
				out := make([]interface{}, len(x))
				for i, el := range x {
					g, ok := e.toGo(el, st.Elem())
					if !ok {
						return nil, false
					}
					out[i] = g
				}
				return out, true
			}
		}
		return fmt.Sprintf("<slice#%d>", len(x)), true
	case Struct:
		if t != nil {
			if st, ok := t.Underlying().(*types.Struct); ok {
				out := make([]interface{}, len(x))
				for i, el := range x {
					g, ok := e.toGo(el, st.Field(i).Type())
					if !ok {
						return nil, false
					}
					out[i] = g
				}
				return out, true
			}
		}
		return "<struct>", true
	case Array:
		return fmt.Sprintf("<array#%d>", len(x)), true
	case *Value:
		if x == nil {
			return nil, true
		}
		return fmt.Sprintf("%p", x), true
	case *Map:
		return "<map>", true
	}
	return fmt.Sprintf("<%T>", v), true
}

func (e *Exec) sprintf(format string, args []Value) Str {
	gos := make([]interface{}, len(args))
	allConc := true
	for i, a := range args {
		it := a.(Iface)
		g, ok := e.toGo(it, nil)
		if !ok {
			allConc = false
			continue
		}
		gos[i] = g
	}
	f := strings.ReplaceAll(format, "%w", "%v")
	if allConc {
		return Str{s: fmt.Sprintf(f, gos...)}
	}
	// piecewise: a string with symbolic bytes under a plain %v / %s is spliced in byte for byte
	opaque := Str{s: "<formatted:" + format + ">", opaque: true, nonEmpty: formatHasLiteral(f)}
	out := Str{}
	arg := 0
	for i := 0; i < len(f); {
		j := strings.IndexByte(f[i:], '%')
		if j < 0 {
			out = strConcat(out, Str{s: f[i:]})
			break
		}
		out = strConcat(out, Str{s: f[i : i+j]})
		i += j
		k := i + 1
		for k < len(f) && strings.IndexByte("+-# 0123456789.", f[k]) >= 0 {
			k++
		}
		if k >= len(f) {
			return opaque
		}
		verb := f[i : k+1]
		i = k + 1
		if f[k] == '%' {
			out = strConcat(out, Str{s: "%"})
			continue
		}
		if f[k] == '*' || arg >= len(args) {
			return opaque
		}
		if gos[arg] != nil || isNilIface(args[arg]) {
			out = strConcat(out, Str{s: fmt.Sprintf(verb, gos[arg])})
		} else {
			it := args[arg].(Iface)
			st, ok := it.v.(Str)
			if sl, isSlice := it.v.(Slice); isSlice && verb == "%s" {
				// %s of a []byte with symbolic bytes: byte for byte
				bs := make([]Sc, 0, len(sl))
				for _, x := range sl {
					sc, isSc := x.(Sc)
					if !isSc {
						return opaque
					}
					bs = append(bs, sc)
				}
				st, ok = mkStrBytes(bs), true
			}
			if !ok || st.opaque || (verb != "%v" && verb != "%s") {
				return opaque
			}
			out = strConcat(out, st)
		}
		arg++
	}
	return out
}

func isNilIface(v Value) bool {
	it, ok := v.(Iface)
	return ok && it.t == nil
}

// wrapVerbArgs returns the argument indexes consumed by %w verbs.
func wrapVerbArgs(format string) []int {
	var res []int
	arg := 0
	for i := 0; i < len(format); i++ {
		if format[i] != '%' {
			continue
		}
		i++
		for i < len(format) && strings.IndexByte("+-# 0123456789.", format[i]) >= 0 {
			i++
		}
		if i >= len(format) {
			break
		}
		switch format[i] {
		case '%':
		case '*':
			arg++
		case 'w':
			res = append(res, arg)
			arg++
		default:
			arg++
		}
	}
	return res
}

func (e *Exec) newErrorString(msg Str) Value {
	pkg := e.P.prog.ImportedPackage("errors")
	return e.callSSA(nil, token.NoPos, pkg.Func("New"), []Value{msg}, nil)
}

func init() {
	reg := func(name string, f intrinsicFn) { intrinsics[name] = f }

	// ----- fmt -----
	reg("fmt.Sprintf", func(e *Exec, c *frame, fn *ssa.Function, a []Value) Value {
		return e.sprintf(e.mustGoString(a[0], "fmt.Sprintf format"), a[1].(Slice))
	})
	reg("fmt.Sprint", func(e *Exec, c *frame, fn *ssa.Function, a []Value) Value {
		args := a[0].(Slice)
		return e.sprintf(strings.Repeat("%v", len(args)), args)
	})
	reg("fmt.Sprintln", func(e *Exec, c *frame, fn *ssa.Function, a []Value) Value {
		args := a[0].(Slice)
		return e.sprintf(strings.TrimSpace(strings.Repeat("%v ", len(args)))+"\n", args)
	})
	reg("fmt.Errorf", func(e *Exec, c *frame, fn *ssa.Function, a []Value) Value {
		format := e.mustGoString(a[0], "fmt.Errorf format")
		args := a[1].(Slice)
		msg := e.sprintf(format, args)
		ws := wrapVerbArgs(format)
		if len(ws) == 1 && ws[0] < len(args) {
			inner := args[ws[0]].(Iface)
			if inner.t != nil {
				if _, isErr := types.MissingMethod(inner.t, errorIfaceT, true); isErr == false {
					cell := new(Value)
					*cell = Struct{msg, inner}
					return Iface{t: e.P.wrapErrT, v: cell}
				}
			}
		}
		if len(ws) > 1 { // *fmt.wrapErrors{msg, errs}: errors.Is/As walk Unwrap() []error through the real code
			var errs Slice
			for _, wi := range ws {
				if wi < len(args) {
					if inner := args[wi].(Iface); inner.t != nil {
						errs = append(errs, inner)
					}
				}
			}
			cell := new(Value)
			*cell = Struct{msg, errs}
			return Iface{t: e.P.wrapErrsT, v: cell}
		}
		return e.newErrorString(msg)
	})
	for _, n := range []string{"fmt.Printf", "fmt.Println", "fmt.Print"} {
		reg(n, func(e *Exec, c *frame, fn *ssa.Function, a []Value) Value { return e.dummyResult(fn) })
	}
	reg("fmt.Fprintf", func(e *Exec, c *frame, fn *ssa.Function, a []Value) Value {
		s := e.sprintf(e.mustGoString(a[1], "fmt.Fprintf format"), a[2].(Slice))
		if s.opaque {
			e.unsupported("fmt.Fprintf of symbolic data")
		}
		w := a[0].(Iface)
		bs := make(Slice, s.Len())
		for i := range bs {
			bs[i] = s.At(i)
		}
		r, ok := e.callMethod(w, "Write", bs)
		if !ok {
			e.unsupported("fmt.Fprintf: writer without Write")
		}
		return r
	})

	// ----- juniper parallel.DoContext: executed as the sequential schedule i = 0..n-1 (other schedules are outside the claim) -----
	reg("github.com/bradenaw/juniper/parallel.DoContext", func(e *Exec, c *frame, fn *ssa.Function, a []Value) Value {
		n := int(e.concInt(a[2].(Sc), "parallel.DoContext n"))
		e.intrHit["parallel.DoContext-sequential"]++
		for i := 0; i < n; i++ {
			r := e.call(c, token.NoPos, a[3], []Value{a[0], mkInt(int64(i))})
			if it, ok := r.(Iface); ok && it.t != nil {
				return it
			}
		}
		return Iface{}
	})

	// ----- gluon async.QueuedChannel: the forwarding goroutine is not started; Enqueue delivers straight into the
	// (unbounded) channel, i.e. the queue is modelled as the FIFO, loss-free pipe it is specified to be -----
	// logging.DoAnnotated(ctx, fn, labels...) = pprof.Do with labels: runs fn(ctx) (labels are not modelled)
	reg("github.com/ProtonMail/gluon/logging.DoAnnotated", func(e *Exec, c *frame, fn *ssa.Function, a []Value) Value {
		e.call(c, token.NoPos, a[1], []Value{a[0]})
		return nil
	})
	reg("github.com/ProtonMail/gluon/async.GoAnnotated", func(e *Exec, c *frame, fn *ssa.Function, a []Value) Value {
		if e.P.cfg.Goroutines {
			// GoAnnotated(ctx, panicHandler, fn, labels) runs fn(ctx) in a new goroutine (pprof labels and the panic
			// handler are not modelled: an uncaught panic of the goroutine is a violation)
			e.spawn(token.NoPos, a[2], []Value{a[0]})
			return nil
		}
		e.intrHit["async.GoAnnotated-not-started"]++
		return nil
	})
	reg("(*github.com/ProtonMail/gluon/async.QueuedChannel[T]).Enqueue", func(e *Exec, c *frame, fn *ssa.Function, a []Value) Value {
		if e.P.cfg.Goroutines {
			return e.runFunc(c, fn, e.P.info(fn), a, nil) // the real code
		}
		e.intrHit["QueuedChannel.Enqueue-direct"]++
		q := (*e.deref(c, a[0])).(Struct)
		if closed := q[4].(Struct)[0].(Sc); closed.T != nil || closed.C != 0 {
			return mkBool(false)
		}
		ch := q[0].(*Chan)
		old := ch.buf
		e.journalUndo(func() { ch.buf = old })
		nb := append([]Value(nil), ch.buf...)
		for _, it := range a[1].(Slice) {
			nb = append(nb, it)
		}
		ch.buf = nb
		return mkBool(true)
	})
	reg("time.runtimeNano", func(e *Exec, c *frame, fn *ssa.Function, a []Value) Value { return Sc{C: 1} })
	// time.NewTicker: the channel of the ticker has a tick pending or not by symbolic choice each time a select looks
	// at it (at most 3 ticks per path); Stop and Reset do nothing
	reg("time.NewTicker", func(e *Exec, c *frame, fn *ssa.Function, a []Value) Value {
		e.intrHit["time.NewTicker-symbolic-ticks"]++
		st := zero(fn.Signature.Results().At(0).Type().Underlying().(*types.Pointer).Elem()).(Struct)
		st[0] = &Chan{ticker: true, ticks: 3}
		cell := new(Value)
		*cell = st
		return cell
	})
	reg("(*time.Ticker).Stop", func(e *Exec, c *frame, fn *ssa.Function, a []Value) Value { return nil })
	reg("(*time.Ticker).Reset", func(e *Exec, c *frame, fn *ssa.Function, a []Value) Value { return nil })
	// time.After inside a select that also waits for data: the timer case is listed last and fires only when no other
	// case is ready (quiescence), which is how the harnesses use it
	reg("time.After", func(e *Exec, c *frame, fn *ssa.Function, a []Value) Value {
		e.intrHit["time.After-fires-at-quiescence"]++
		return &Chan{closed: true}
	})

	// ----- sort.Slice / sort.SliceStable (reflection based in the library): executed as a stable insertion sort that
	// calls the real less closure; for sort.Slice this is one of the orders the library may produce -----
	sortSlice := func(e *Exec, c *frame, fn *ssa.Function, a []Value) Value {
		e.intrHit["sort.Slice-insertion-sort"]++
		it, ok := a[0].(Iface)
		if !ok || it.t == nil {
			e.unsupported("sort.Slice of a non-slice")
		}
		sl, ok := it.v.(Slice)
		if !ok {
			e.unsupported("sort.Slice of a non-slice")
		}
		for i := 1; i < len(sl); i++ {
			for j := i; j > 0; j-- {
				r := e.call(c, token.NoPos, a[1], []Value{mkInt(int64(j)), mkInt(int64(j - 1))})
				if !e.branch(r.(Sc)) {
					break
				}
				x, y := sl[j], sl[j-1]
				e.setCell(&sl[j], y)
				e.setCell(&sl[j-1], x)
			}
		}
		return nil
	}
	reg("sort.Slice", sortSlice)
	reg("sort.SliceStable", sortSlice)

	// ----- regexp on concrete patterns and subjects: delegated to the Go library the engine is linked with
	// (the regexp engine itself is not encoded; symbolic patterns or subjects are unsupported) -----
	concStr := func(e *Exec, v Value, what string) string {
		st, ok := v.(Str)
		if !ok || st.b != nil || st.opaque {
			e.unsupported("regexp: symbolic " + what)
		}
		return st.s
	}
	reg("regexp.QuoteMeta", func(e *Exec, c *frame, fn *ssa.Function, a []Value) Value {
		e.intrHit["regexp-concrete-delegation"]++
		return Str{s: regexp.QuoteMeta(concStr(e, a[0], "pattern"))}
	})
	reg("regexp.MustCompile", func(e *Exec, c *frame, fn *ssa.Function, a []Value) Value {
		e.intrHit["regexp-concrete-delegation"]++
		rx, err := regexp.Compile(concStr(e, a[0], "pattern"))
		if err != nil {
			panic(targetPanic{Iface{t: e.P.rtErrT, v: Str{s: "regexp: Compile: " + err.Error()}}})
		}
		cell := new(Value)
		*cell = nativeObj{rx}
		return cell
	})
	reg("(*regexp.Regexp).FindAllString", func(e *Exec, c *frame, fn *ssa.Function, a []Value) Value {
		rx := (*a[0].(*Value)).(nativeObj).v.(*regexp.Regexp)
		res := rx.FindAllString(concStr(e, a[1], "subject"), int(int64(e.concInt(a[2].(Sc), "FindAllString n"))))
		if res == nil {
			return Slice(nil)
		}
		out := make(Slice, len(res))
		for i, r := range res {
			out[i] = Str{s: r}
		}
		return out
	})
	reg("(*regexp.Regexp).MatchString", func(e *Exec, c *frame, fn *ssa.Function, a []Value) Value {
		rx := (*a[0].(*Value)).(nativeObj).v.(*regexp.Regexp)
		return mkBool(rx.MatchString(concStr(e, a[1], "subject")))
	})

	// ----- database/sql row iteration: "no rows" (statement-contract harness) -----
	reg("(*database/sql.Rows).Next", func(e *Exec, c *frame, fn *ssa.Function, a []Value) Value { return mkBool(false) })
	reg("(*database/sql.Rows).Close", func(e *Exec, c *frame, fn *ssa.Function, a []Value) Value { return Iface{} })
	reg("(*database/sql.Rows).Err", func(e *Exec, c *frame, fn *ssa.Function, a []Value) Value { return Iface{} })
	reg("(*database/sql.Row).Scan", func(e *Exec, c *frame, fn *ssa.Function, a []Value) Value {
		pkg := e.P.prog.ImportedPackage("database/sql")
		g := pkg.Var("ErrNoRows")
		cell := e.global(g)
		if it, ok := (*cell).(Iface); !ok || it.t == nil {
			*cell = e.newErrorString(Str{s: "sql: no rows in result set"})
		}
		return *cell
	})
	reg("(*database/sql.Rows).Scan", func(e *Exec, c *frame, fn *ssa.Function, a []Value) Value { return Iface{} })
	// ----- database/sql transactions: counted (ghost counters sql.begin / sql.commit / sql.rollback, readable through
	// vsymGhostGet); the ghost flags sql.failCommit / sql.failRollback make the call return an error -----
	reg("(*database/sql.DB).BeginTx", func(e *Exec, c *frame, fn *ssa.Function, a []Value) Value {
		e.ghost["sql.begin"]++
		cell := new(Value)
		*cell = zero(fn.Signature.Results().At(0).Type().Underlying().(*types.Pointer).Elem())
		return Tuple{cell, Iface{}}
	})
	reg("(*database/sql.Tx).Commit", func(e *Exec, c *frame, fn *ssa.Function, a []Value) Value {
		if e.ghost["sql.failCommit"] != 0 {
			e.ghost["sql.commitFailed"]++
			return e.newErrorString(Str{s: "verif: commit failed"})
		}
		e.ghost["sql.commit"]++
		return Iface{}
	})
	reg("(*database/sql.Tx).Rollback", func(e *Exec, c *frame, fn *ssa.Function, a []Value) Value {
		e.ghost["sql.rollback"]++
		if e.ghost["sql.failRollback"] != 0 {
			return e.newErrorString(Str{s: "verif: rollback failed"})
		}
		return Iface{}
	})

	// ----- crypto/sha256 as an injective stub: the "digest" is the written data itself (collision freedom assumed) -----
	reg("(*crypto/sha256.digest).Write", func(e *Exec, c *frame, fn *ssa.Function, a []Value) Value {
		p := a[0].(*Value)
		data := a[1].(Slice)
		old := e.hashBuf[p]
		nb := append(append([]Value(nil), old...), data...)
		e.hashBuf[p] = nb
		e.journalUndo(func() { e.hashBuf[p] = old })
		e.intrHit["sha256-injective-stub"]++
		return Tuple{mkInt(int64(len(data))), Iface{}}
	})
	reg("(*crypto/sha256.digest).Sum", func(e *Exec, c *frame, fn *ssa.Function, a []Value) Value {
		p := a[0].(*Value)
		in := a[1].(Slice)
		out := make(Slice, 0, len(in)+len(e.hashBuf[p])+1)
		out = append(out, in...)
		out = append(out, e.hashBuf[p]...)
		out = append(out, Sc{C: 0xff}) // terminator keeps the encoding injective w.r.t. concatenation
		return out
	})

	// ----- context -----
	reg("context.WithValue", func(e *Exec, c *frame, fn *ssa.Function, a []Value) Value {
		parent := a[0].(Iface)
		if parent.t == nil {
			panic(targetPanic{Iface{t: e.P.rtErrT, v: Str{s: "cannot create context from nil parent"}}})
		}
		key := a[1].(Iface)
		if key.t == nil {
			panic(targetPanic{Iface{t: e.P.rtErrT, v: Str{s: "nil key"}}})
		}
		if !types.Comparable(key.t) {
			panic(targetPanic{Iface{t: e.P.rtErrT, v: Str{s: "key is not comparable"}}})
		}
		pkg := e.P.prog.ImportedPackage("context")
		vt := pkg.Type("valueCtx").Object().Type()
		cell := new(Value)
		*cell = Struct{parent, key, a[2]}
		return Iface{t: types.NewPointer(vt), v: cell}
	})

	// ----- errors -----
	reg("errors.Is", func(e *Exec, c *frame, fn *ssa.Function, a []Value) Value {
		return mkBool(e.errorsIs(a[0].(Iface), a[1].(Iface)))
	})
	reg("errors.As", func(e *Exec, c *frame, fn *ssa.Function, a []Value) Value {
		return mkBool(e.errorsAs(a[0].(Iface), a[1].(Iface)))
	})

	// ----- internal/bytealg & friends -----
	indexByte := func(e *Exec, c *frame, fn *ssa.Function, a []Value) Value {
		hay := bytesOf(a[0])
		ch := a[1].(Sc)
		for i, b := range hay {
			if e.branch(e.scEq(b, ch, byteKI)) {
				return mkInt(int64(i))
			}
		}
		return mkInt(-1)
	}
	reg("bytealg.IndexByte", indexByte)
	reg("bytealg.IndexByteString", indexByte)
	reg("bytes.IndexByte", indexByte)
	reg("strings.IndexByte", indexByte)
	lastIndexByte := func(e *Exec, c *frame, fn *ssa.Function, a []Value) Value {
		hay := bytesOf(a[0])
		ch := a[1].(Sc)
		for i := len(hay) - 1; i >= 0; i-- {
			if e.branch(e.scEq(hay[i], ch, byteKI)) {
				return mkInt(int64(i))
			}
		}
		return mkInt(-1)
	}
	reg("bytealg.LastIndexByte", lastIndexByte)
	reg("bytealg.LastIndexByteString", lastIndexByte)
	reg("strings.LastIndexByte", lastIndexByte)
	reg("bytes.LastIndexByte", lastIndexByte)
	count := func(e *Exec, c *frame, fn *ssa.Function, a []Value) Value {
		hay := bytesOf(a[0])
		ch := a[1].(Sc)
		n := 0
		for _, b := range hay {
			if e.branch(e.scEq(b, ch, byteKI)) {
				n++
			}
		}
		return mkInt(int64(n))
	}
	reg("bytealg.Count", count)
	reg("bytealg.CountString", count)
	eqBytes := func(e *Exec, x, y []Sc) Sc {
		if len(x) != len(y) {
			return mkBool(false)
		}
		r := mkBool(true)
		for i := range x {
			r = e.and(r, e.scEq(x[i], y[i], byteKI))
			if r.T == nil && r.C == 0 {
				return r
			}
		}
		return r
	}
	index := func(e *Exec, c *frame, fn *ssa.Function, a []Value) Value {
		hay, sub := bytesOf(a[0]), bytesOf(a[1])
		for i := 0; i+len(sub) <= len(hay); i++ {
			if e.branch(eqBytes(e, hay[i:i+len(sub)], sub)) {
				return mkInt(int64(i))
			}
		}
		return mkInt(-1)
	}
	reg("bytealg.Index", index)
	reg("bytealg.IndexString", index)
	reg("strings.Index", index)
	reg("bytes.Index", index)
	lastIndex := func(e *Exec, c *frame, fn *ssa.Function, a []Value) Value {
		hay, sub := bytesOf(a[0]), bytesOf(a[1])
		for i := len(hay) - len(sub); i >= 0; i-- {
			if e.branch(eqBytes(e, hay[i:i+len(sub)], sub)) {
				return mkInt(int64(i))
			}
		}
		return mkInt(-1)
	}
	reg("strings.LastIndex", lastIndex)
	reg("bytes.LastIndex", lastIndex)
	reg("bytes.Equal", func(e *Exec, c *frame, fn *ssa.Function, a []Value) Value {
		return eqBytes(e, bytesOf(a[0]), bytesOf(a[1]))
	})
	reg("bytealg.Equal", func(e *Exec, c *frame, fn *ssa.Function, a []Value) Value {
		return eqBytes(e, bytesOf(a[0]), bytesOf(a[1]))
	})
	reg("strings.HasPrefix", func(e *Exec, c *frame, fn *ssa.Function, a []Value) Value {
		s, p := bytesOf(a[0]), bytesOf(a[1])
		if len(p) > len(s) {
			return mkBool(false)
		}
		return eqBytes(e, s[:len(p)], p)
	})
	intrinsics["bytes.HasPrefix"] = intrinsics["strings.HasPrefix"]
	reg("strings.HasSuffix", func(e *Exec, c *frame, fn *ssa.Function, a []Value) Value {
		s, p := bytesOf(a[0]), bytesOf(a[1])
		if len(p) > len(s) {
			return mkBool(false)
		}
		return eqBytes(e, s[len(s)-len(p):], p)
	})
	intrinsics["bytes.HasSuffix"] = intrinsics["strings.HasSuffix"]
	compare := func(e *Exec, c *frame, fn *ssa.Function, a []Value) Value {
		x, y := bytesOf(a[0]), bytesOf(a[1])
		n := min(len(x), len(y))
		for i := 0; i < n; i++ {
			if e.branch(e.scEq(x[i], y[i], byteKI)) {
				continue
			}
			if e.branch(e.intBinop(token.LSS, byteKI, x[i], y[i], types.Typ[types.Uint8]).(Sc)) {
				return mkInt(-1)
			}
			return mkInt(1)
		}
		switch {
		case len(x) < len(y):
			return mkInt(-1)
		case len(x) > len(y):
			return mkInt(1)
		}
		return mkInt(0)
	}
	reg("bytealg.Compare", compare)
	reg("bytealg.CompareString", compare)
	reg("strings.Compare", compare)
	reg("bytes.Compare", compare)
	reg("bytealg.MakeNoZero", func(e *Exec, c *frame, fn *ssa.Function, a []Value) Value {
		n := e.concSize(a[0].(Sc), "bytealg.MakeNoZero")
		s := make(Slice, n)
		for i := range s {
			s[i] = Sc{}
		}
		return s
	})

	// ASCII case mapping without forking
	lowerByte := func(e *Exec, b Sc, upper bool) Sc {
		lo, hi, delta := uint64('A'), uint64('Z'), uint64(32)
		if upper {
			lo, hi, delta = 'a', 'z', ^uint64(31) // -32 mod 256
		}
		if b.T == nil {
			if b.C >= lo && b.C <= hi {
				return Sc{C: (b.C + delta) & 0xff}
			}
			return b
		}
		c := e.ctx
		in := c.And(c.Ule(c.BV(lo, 8), b.T), c.Ule(b.T, c.BV(hi, 8)))
		return e.fromTermT(c.Ite(in, c.Bin(OpAdd, b.T, c.BV(delta, 8)), b.T), byteKI)
	}
	caseMap := func(upper bool) intrinsicFn {
		return func(e *Exec, c *frame, fn *ssa.Function, a []Value) Value {
			s, isStr := a[0].(Str)
			if isStr && s.opaque {
				return s
			}
			bs := bytesOf(a[0])
			ascii := true
			for _, b := range bs {
				if b.T == nil {
					if b.C >= 0x80 {
						ascii = false
					}
				} else if !e.branch(e.boolSc(e.ctx.Ult(b.T, e.ctx.BV(0x80, 8)))) {
					ascii = false
				}
				if !ascii {
					break
				}
			}
			if !ascii {
				return e.runFunc(c, fn, e.P.info(fn), a, nil)
			}
			out := make([]Sc, len(bs))
			for i, b := range bs {
				out[i] = lowerByte(e, b, upper)
			}
			if isStr {
				return mkStrBytes(out)
			}
			r := make(Slice, len(out))
			for i := range r {
				r[i] = out[i]
			}
			return r
		}
	}
	reg("strings.ToLower", caseMap(false))
	reg("strings.ToUpper", caseMap(true))
	reg("bytes.ToLower", caseMap(false))
	reg("bytes.ToUpper", caseMap(true))
	reg("strings.EqualFold", func(e *Exec, c *frame, fn *ssa.Function, a []Value) Value {
		x, y := bytesOf(a[0]), bytesOf(a[1])
		ascii := true
		for _, b := range append(append([]Sc{}, x...), y...) {
			if b.T == nil {
				if b.C >= 0x80 {
					ascii = false
				}
			} else if !e.branch(e.boolSc(e.ctx.Ult(b.T, e.ctx.BV(0x80, 8)))) {
				ascii = false
			}
			if !ascii {
				break
			}
		}
		if !ascii {
			return e.runFunc(c, fn, e.P.info(fn), a, nil)
		}
		if len(x) != len(y) {
			return mkBool(false)
		}
		lx := make([]Sc, len(x))
		ly := make([]Sc, len(y))
		for i := range x {
			lx[i] = lowerByte(e, x[i], false)
			ly[i] = lowerByte(e, y[i], false)
		}
		return eqBytes(e, lx, ly)
	})
	reg("(*strings.Builder).copyCheck", func(e *Exec, c *frame, fn *ssa.Function, a []Value) Value { return nil })

	// ----- runtime / os / misc -----
	reg("runtime.NumCPU", func(e *Exec, c *frame, fn *ssa.Function, a []Value) Value { return mkInt(1) })
	reg("runtime.GOMAXPROCS", func(e *Exec, c *frame, fn *ssa.Function, a []Value) Value { return mkInt(1) })
	for _, n := range []string{"runtime.GC", "runtime.Gosched", "runtime.KeepAlive", "runtime.SetFinalizer", "runtime.LockOSThread", "runtime.UnlockOSThread"} {
		reg(n, func(e *Exec, c *frame, fn *ssa.Function, a []Value) Value { return nil })
	}
	reg("runtime.Caller", func(e *Exec, c *frame, fn *ssa.Function, a []Value) Value {
		return Tuple{Sc{}, Str{s: "?"}, mkInt(0), mkBool(false)}
	})
	reg("runtime.Callers", func(e *Exec, c *frame, fn *ssa.Function, a []Value) Value { return mkInt(0) })
	reg("os.Getenv", func(e *Exec, c *frame, fn *ssa.Function, a []Value) Value { return Str{} })
	reg("os.LookupEnv", func(e *Exec, c *frame, fn *ssa.Function, a []Value) Value { return Tuple{Str{}, mkBool(false)} })
	reg("time.Sleep", func(e *Exec, c *frame, fn *ssa.Function, a []Value) Value { return nil })
	reg("time.Now", func(e *Exec, c *frame, fn *ssa.Function, a []Value) Value {
		const unixToInternal0 = (1969*365 + 1969/4 - 1969/100 + 1969/400) * 86400
		if e.P.cfg.ConcreteTime {
			// spec option concrete_time: a fixed clock that advances one second per call (for harnesses in which the
			// clock only ends up in log / response texts)
			e.ghost["time.Now"]++
			return Struct{Sc{}, Sc{C: uint64(unixToInternal0 + 1700000000 + e.ghost["time.Now"])}, (*Value)(nil)}
		}
		// Time{wall:0, ext: seconds since year 1, loc: nil (UTC)} ; seconds are symbolic but within 1970..2255
		v := e.freshVar("time.Now", 64)
		c1 := e.ctx
		const unixToInternal = (1969*365 + 1969/4 - 1969/100 + 1969/400) * 86400
		lo := c1.BV(uint64(unixToInternal), 64)
		hi := c1.BV(uint64(unixToInternal+9000000000), 64)
		e.assume(e.boolSc(c1.And(c1.Sle(lo, v), c1.Sle(v, hi))))
		// monotone with respect to previous calls
		if prev, ok := e.ghostTerm["time.Now"]; ok {
			e.assume(e.boolSc(c1.Sle(prev, v)))
		}
		e.ghostTerm["time.Now"] = v
		return Struct{Sc{}, Sc{T: v}, (*Value)(nil)}
	})
	// time.Date with symbolic fields: the calendar arithmetic of the library is not encoded; the result is a Time
	// whose seconds are an injective packing of (year, month, day, hour, min, sec, zone offset), so that two
	// Dates are Equal iff they were built from the same fields.  Concrete arguments run the real code.
	reg("time.Date", func(e *Exec, c *frame, fn *ssa.Function, a []Value) Value {
		sym := false
		for i := 0; i < 7; i++ {
			if a[i].(Sc).T != nil {
				sym = true
			}
		}
		off := Sc{}
		if lp, ok := a[7].(*Value); ok && lp != nil {
			if loc, ok := (*lp).(Struct); ok && len(loc) > 1 {
				if zs, ok := loc[1].(Slice); ok && len(zs) > 0 {
					off = zs[0].(Struct)[1].(Sc)
				}
			}
		}
		if off.T != nil {
			sym = true
		}
		if !sym {
			return e.runFunc(c, fn, e.P.info(fn), a, nil)
		}
		e.intrHit["time.Date-injective-packing"]++
		ki := kindInfo{w: 64, isInt: true, signed: true}
		t64 := types.Typ[types.Int64]
		acc := Sc{}
		for i, w := range []uint64{16, 5, 7, 7, 7, 7} { // year, month, day, hour, min, sec: shifted fields
			acc = e.intBinop(token.MUL, ki, acc, Sc{C: 1 << w}, t64).(Sc)
			acc = e.intBinop(token.ADD, ki, acc, a[i].(Sc), t64).(Sc)
		}
		acc = e.intBinop(token.MUL, ki, acc, Sc{C: 1 << 20}, t64).(Sc)
		acc = e.intBinop(token.ADD, ki, acc, off, t64).(Sc)
		return Struct{Sc{}, acc, a[7]}
	})
	// Time.Sub / Duration.Seconds on symbolic instants: whole seconds, no overflow (the clock model is bounded to 1970..2100)
	reg("(time.Time).Sub", func(e *Exec, c *frame, fn *ssa.Function, a []Value) Value {
		t, u := a[0].(Struct), a[1].(Struct)
		tw, te, uw, ue := t[0].(Sc), t[1].(Sc), u[0].(Sc), u[1].(Sc)
		if te.T == nil && ue.T == nil {
			return e.runFunc(c, fn, e.P.info(fn), a, nil)
		}
		if tw.T != nil || uw.T != nil || tw.C != 0 || uw.C != 0 {
			e.unsupported("Time.Sub on symbolic instants with wall/monotonic parts")
		}
		ki := kindInfo{w: 64, isInt: true, signed: true}
		sec := e.intBinop(token.SUB, ki, te, ue, types.Typ[types.Int64]).(Sc)
		d := e.intBinop(token.MUL, ki, sec, Sc{C: 1000000000}, types.Typ[types.Int64]).(Sc)
		if d.T != nil {
			e.durSecs[d.T] = sec
		}
		return d
	})
	reg("(time.Duration).Seconds", func(e *Exec, c *frame, fn *ssa.Function, a []Value) Value {
		d := a[0].(Sc)
		if d.T == nil {
			return float64(int64(d.C)) / 1e9
		}
		if sec, ok := e.durSecs[d.T]; ok {
			return SymFloat{sec: sec}
		}
		e.unsupported("Duration.Seconds of a symbolic duration of unknown origin")
		return nil
	})
	reg("time.AfterFunc", func(e *Exec, c *frame, fn *ssa.Function, a []Value) Value {
		e.timers = append(e.timers, Tuple{a[0], a[1]})
		cell := new(Value)
		*cell = zero(fn.Signature.Results().At(0).Type().Underlying().(*types.Pointer).Elem())
		return cell
	})
	reg("(*time.Timer).Stop", func(e *Exec, c *frame, fn *ssa.Function, a []Value) Value { return mkBool(true) })
	reg("github.com/google/uuid.New", func(e *Exec, c *frame, fn *ssa.Function, a []Value) Value {
		e.ghost["uuid"]++
		n := e.ghost["uuid"]
		arr := make(Array, 16)
		for i := range arr {
			arr[i] = Sc{}
		}
		arr[6] = Sc{C: 0x40}
		arr[8] = Sc{C: 0x80}
		arr[14] = Sc{C: uint64(n>>8) & 0xff}
		arr[15] = Sc{C: uint64(n) & 0xff}
		return arr
	})
	reg("github.com/google/uuid.NewString", func(e *Exec, c *frame, fn *ssa.Function, a []Value) Value {
		e.ghost["uuid"]++
		return Str{s: fmt.Sprintf("00000000-0000-4000-8000-%012x", e.ghost["uuid"])}
	})
	reg("github.com/google/uuid.NewRandom", func(e *Exec, c *frame, fn *ssa.Function, a []Value) Value {
		v := intrinsics["github.com/google/uuid.New"](e, c, fn, a)
		return Tuple{v, Iface{}}
	})

	// ----- sync -----
	lock := func(e *Exec, c *frame, fn *ssa.Function, a []Value) Value {
		p := a[0].(*Value)
		if p == nil {
			e.rtPanic("nil mutex")
		}
		if e.locks[p] != 0 {
			e.blockUntil(func() bool { return e.locks[p] == 0 }, "Lock of a held mutex: "+fn.String())
		}
		e.locks[p] = -1
		e.journalUndo(func() { delete(e.locks, p) })
		return nil
	}
	unlock := func(e *Exec, c *frame, fn *ssa.Function, a []Value) Value {
		p := a[0].(*Value)
		if e.locks[p] != -1 {
			panic(targetPanic{Iface{t: e.P.rtErrT, v: Str{s: "sync: unlock of unlocked mutex"}}})
		}
		old := e.locks[p]
		delete(e.locks, p)
		e.journalUndo(func() { e.locks[p] = old })
		return nil
	}
	reg("(*sync.Mutex).Lock", lock)
	reg("(*sync.Mutex).Unlock", unlock)
	reg("(*sync.Mutex).TryLock", func(e *Exec, c *frame, fn *ssa.Function, a []Value) Value {
		p := a[0].(*Value)
		if e.locks[p] != 0 {
			return mkBool(false)
		}
		lock(e, c, fn, a)
		return mkBool(true)
	})
	reg("(*sync.RWMutex).Lock", lock)
	reg("(*sync.RWMutex).Unlock", unlock)
	reg("(*sync.RWMutex).RLock", func(e *Exec, c *frame, fn *ssa.Function, a []Value) Value {
		p := a[0].(*Value)
		if e.locks[p] == -1 {
			e.blockUntil(func() bool { return e.locks[p] != -1 }, "RLock of a write-held RWMutex")
		}
		old := e.locks[p]
		e.locks[p] = old + 1
		e.journalUndo(func() { e.locks[p] = old })
		return nil
	})
	reg("(*sync.RWMutex).RUnlock", func(e *Exec, c *frame, fn *ssa.Function, a []Value) Value {
		p := a[0].(*Value)
		old := e.locks[p]
		if old <= 0 {
			panic(targetPanic{Iface{t: e.P.rtErrT, v: Str{s: "sync: RUnlock of unlocked RWMutex"}}})
		}
		e.locks[p] = old - 1
		e.journalUndo(func() { e.locks[p] = old })
		return nil
	})
	// WaitGroup: counter kept in the lock table
	reg("(*sync.WaitGroup).Add", func(e *Exec, c *frame, fn *ssa.Function, a []Value) Value {
		p := a[0].(*Value)
		d := int(e.concInt(a[1].(Sc), "WaitGroup.Add"))
		old := e.locks[p]
		if old+d < 0 {
			panic(targetPanic{Iface{t: e.P.rtErrT, v: Str{s: "sync: negative WaitGroup counter"}}})
		}
		e.locks[p] = old + d
		e.journalUndo(func() { e.locks[p] = old })
		return nil
	})
	reg("(*sync.WaitGroup).Done", func(e *Exec, c *frame, fn *ssa.Function, a []Value) Value {
		p := a[0].(*Value)
		old := e.locks[p]
		if old-1 < 0 {
			panic(targetPanic{Iface{t: e.P.rtErrT, v: Str{s: "sync: negative WaitGroup counter"}}})
		}
		e.locks[p] = old - 1
		e.journalUndo(func() { e.locks[p] = old })
		return nil
	})
	reg("(*sync.WaitGroup).Wait", func(e *Exec, c *frame, fn *ssa.Function, a []Value) Value {
		p := a[0].(*Value)
		if e.locks[p] != 0 {
			e.blockUntil(func() bool { return e.locks[p] == 0 }, "WaitGroup.Wait with non-zero counter")
		}
		return nil
	})
	// sync.Cond (goroutine model only): Wait releases L, parks until the next Signal/Broadcast, re-acquires L.
	// Signal wakes every waiter (allowed: callers must re-check their condition in a loop).
	condL := func(e *Exec, c *frame, a []Value) *Value {
		st := (*e.deref(c, a[0])).(Struct)
		for _, f := range st {
			if it, ok := f.(Iface); ok && it.t != nil {
				if p, ok := it.v.(*Value); ok {
					return p
				}
			}
		}
		e.unsupported("sync.Cond with an L that is not a pointer to a mutex")
		return nil
	}
	reg("(*sync.Cond).Wait", func(e *Exec, c *frame, fn *ssa.Function, a []Value) Value {
		p := a[0].(*Value)
		l := condL(e, c, a)
		unlock(e, c, fn, []Value{l})
		gen := e.condGen[p]
		e.blockUntil(func() bool { return e.condGen[p] != gen }, "Cond.Wait")
		lock(e, c, fn, []Value{l})
		return nil
	})
	wake := func(e *Exec, c *frame, fn *ssa.Function, a []Value) Value {
		p := a[0].(*Value)
		old := e.condGen[p]
		e.condGen[p] = old + 1
		e.journalUndo(func() { e.condGen[p] = old })
		return nil
	}
	reg("(*sync.Cond).Broadcast", wake)
	reg("(*sync.Cond).Signal", wake)
	reg("(*sync.Once).Do", func(e *Exec, c *frame, fn *ssa.Function, a []Value) Value {
		p := a[0].(*Value)
		if e.locks[p] != 0 {
			return nil
		}
		e.locks[p] = 1
		e.journalUndo(func() { delete(e.locks, p) })
		e.call(c, token.NoPos, a[1], nil)
		return nil
	})
	reg("(*sync.Pool).Get", func(e *Exec, c *frame, fn *ssa.Function, a []Value) Value {
		p := a[0].(*Value)
		newFn := (*p).(Struct)[len((*p).(Struct))-1]
		switch f := newFn.(type) {
		case *ssa.Function:
			if f == nil {
				return Iface{}
			}
		}
		return e.call(c, token.NoPos, newFn, nil)
	})
	reg("(*sync.Pool).Put", func(e *Exec, c *frame, fn *ssa.Function, a []Value) Value { return nil })
}

var errorIfaceT = types.Universe.Lookup("error").Type().Underlying().(*types.Interface)

// ---------- errors.Is / errors.As ----------

func (e *Exec) unwrap(err Iface) (Iface, bool) {
	r, ok := e.callMethod(err, "Unwrap")
	if !ok {
		return Iface{}, false
	}
	if it, ok := r.(Iface); ok {
		return it, true
	}
	return Iface{}, false
}

// unwrapMulti returns the errors of an Unwrap() []error method.
func (e *Exec) unwrapMulti(err Iface) ([]Iface, bool) {
	r, ok := e.callMethod(err, "Unwrap")
	if !ok {
		return nil, false
	}
	sl, ok := r.(Slice)
	if !ok {
		return nil, false
	}
	var out []Iface
	for _, x := range sl {
		if it, ok := x.(Iface); ok && it.t != nil {
			out = append(out, it)
		}
	}
	return out, true
}

func (e *Exec) errorsIs(err, target Iface) bool {
	if err.t == nil || target.t == nil {
		return err.t == nil && target.t == nil
	}
	comparable := types.Comparable(target.t)
	for depth := 0; depth < 64; depth++ {
		if comparable && sameType(err.t, target.t) {
			if e.branch(e.equals(err.t, err.v, target.v)) {
				return true
			}
		}
		if r, ok := e.callMethod(err, "Is", target); ok {
			if s, ok := r.(Sc); ok && e.branch(s) {
				return true
			}
		}
		next, ok := e.unwrap(err)
		if !ok || next.t == nil {
			if many, ok := e.unwrapMulti(err); ok {
				for _, m := range many {
					if e.errorsIs(m, target) {
						return true
					}
				}
			}
			return false
		}
		err = next
	}
	return false
}

func (e *Exec) errorsAs(err, target Iface) bool {
	if target.t == nil {
		e.rtPanic("errors: target cannot be nil")
	}
	pt, ok := target.t.Underlying().(*types.Pointer)
	if !ok {
		e.rtPanic("errors: target must be a non-nil pointer")
	}
	cell := target.v.(*Value)
	if cell == nil {
		e.rtPanic("errors: target must be a non-nil pointer")
	}
	elemT := pt.Elem()
	for depth := 0; depth < 64 && err.t != nil; depth++ {
		if it, ok := elemT.Underlying().(*types.Interface); ok {
			if m, _ := types.MissingMethod(err.t, it, true); m == nil {
				e.store(elemT, cell, err)
				return true
			}
		} else if types.Identical(err.t, elemT) {
			e.store(elemT, cell, err.v)
			return true
		}
		if r, ok := e.callMethod(err, "As", target); ok {
			if s, ok := r.(Sc); ok && e.branch(s) {
				return true
			}
		}
		next, ok := e.unwrap(err)
		if !ok {
			return false
		}
		err = next
	}
	return false
}

// ---------- sync/atomic ----------

func atomicIntrinsic(fn *ssa.Function) intrinsicFn {
	name := fn.Name()
	recv := fn.Signature.Recv()
	if recv != nil {
		// methods of atomic.Int32/Int64/Uint32/Uint64/Bool/Pointer[T]/Value: operate on field "v"
		rn := namedOf(recv.Type())
		tn := ""
		if rn != nil {
			tn = rn.Obj().Name()
		}
		fieldCell := func(e *Exec, p Value) *Value {
			pp := p.(*Value)
			if pp == nil {
				e.rtPanic("nil atomic receiver")
			}
			st := (*pp).(Struct)
			// the value field is the last one named v
			return &st[len(st)-1]
		}
		switch tn {
		case "Value":
			switch name {
			case "Load":
				return func(e *Exec, c *frame, fn *ssa.Function, a []Value) Value { return *fieldCell(e, a[0]) }
			case "Store":
				return func(e *Exec, c *frame, fn *ssa.Function, a []Value) Value {
					e.setCell(fieldCell(e, a[0]), a[1])
					return nil
				}
			case "Swap":
				return func(e *Exec, c *frame, fn *ssa.Function, a []Value) Value {
					cell := fieldCell(e, a[0])
					old := *cell
					e.setCell(cell, a[1])
					return old
				}
			}
			return nil
		case "Pointer":
			switch name {
			case "Load":
				return func(e *Exec, c *frame, fn *ssa.Function, a []Value) Value {
					v := *fieldCell(e, a[0])
					if up, ok := v.(UPtr); ok {
						if up.p == nil {
							return (*Value)(nil)
						}
						return up.p
					}
					return v
				}
			case "Store":
				return func(e *Exec, c *frame, fn *ssa.Function, a []Value) Value {
					e.setCell(fieldCell(e, a[0]), UPtr{a[1]})
					return nil
				}
			case "Swap":
				return func(e *Exec, c *frame, fn *ssa.Function, a []Value) Value {
					cell := fieldCell(e, a[0])
					old := *cell
					e.setCell(cell, UPtr{a[1]})
					if up, ok := old.(UPtr); ok {
						if up.p == nil {
							return (*Value)(nil)
						}
						return up.p
					}
					return old
				}
			case "CompareAndSwap":
				return func(e *Exec, c *frame, fn *ssa.Function, a []Value) Value {
					cell := fieldCell(e, a[0])
					var cur Value = (*Value)(nil)
					if up, ok := (*cell).(UPtr); ok && up.p != nil {
						cur = up.p
					}
					if cur == a[1] {
						e.setCell(cell, UPtr{a[2]})
						return mkBool(true)
					}
					return mkBool(false)
				}
			}
			return nil
		case "Bool":
			// stored as uint32 field v
			switch name {
			case "Load":
				return func(e *Exec, c *frame, fn *ssa.Function, a []Value) Value {
					s := (*fieldCell(e, a[0])).(Sc)
					if s.T != nil {
						return e.boolSc(e.ctx.Not(e.ctx.Eq(s.T, e.ctx.BV(0, 32))))
					}
					return mkBool(s.C != 0)
				}
			case "Store":
				return func(e *Exec, c *frame, fn *ssa.Function, a []Value) Value {
					b := a[1].(Sc)
					if b.T != nil {
						e.setCell(fieldCell(e, a[0]), Sc{T: e.ctx.Ite(b.T, e.ctx.BV(1, 32), e.ctx.BV(0, 32))})
					} else {
						e.setCell(fieldCell(e, a[0]), Sc{C: b.C})
					}
					return nil
				}
			case "Swap":
				return func(e *Exec, c *frame, fn *ssa.Function, a []Value) Value {
					cell := fieldCell(e, a[0])
					old := (*cell).(Sc)
					if old.T != nil || a[1].(Sc).T != nil {
						e.unsupported("atomic.Bool.Swap symbolic")
					}
					e.setCell(cell, Sc{C: a[1].(Sc).C})
					return mkBool(old.C != 0)
				}
			case "CompareAndSwap":
				return func(e *Exec, c *frame, fn *ssa.Function, a []Value) Value {
					cell := fieldCell(e, a[0])
					old := (*cell).(Sc)
					if old.T != nil || a[1].(Sc).T != nil || a[2].(Sc).T != nil {
						e.unsupported("atomic.Bool.CompareAndSwap symbolic")
					}
					if (old.C != 0) == (a[1].(Sc).C != 0) {
						e.setCell(cell, Sc{C: a[2].(Sc).C})
						return mkBool(true)
					}
					return mkBool(false)
				}
			}
			return nil
		case "Int32", "Int64", "Uint32", "Uint64", "Uintptr":
			var elemT types.Type
			switch tn {
			case "Int32":
				elemT = types.Typ[types.Int32]
			case "Int64":
				elemT = types.Typ[types.Int64]
			case "Uint32":
				elemT = types.Typ[types.Uint32]
			case "Uint64":
				elemT = types.Typ[types.Uint64]
			default:
				elemT = types.Typ[types.Uintptr]
			}
			return atomicOp(name, elemT, func(e *Exec, p Value) *Value { return fieldCell(e, p) })
		}
		return nil
	}
	// package-level functions: LoadInt32, AddInt64, CompareAndSwapUint32, StorePointer, ...
	for _, op := range []string{"CompareAndSwap", "Load", "Store", "Add", "Swap", "And", "Or"} {
		if strings.HasPrefix(name, op) {
			tn := strings.TrimPrefix(name, op)
			var elemT types.Type
			switch tn {
			case "Int32":
				elemT = types.Typ[types.Int32]
			case "Int64":
				elemT = types.Typ[types.Int64]
			case "Uint32":
				elemT = types.Typ[types.Uint32]
			case "Uint64":
				elemT = types.Typ[types.Uint64]
			case "Uintptr":
				elemT = types.Typ[types.Uintptr]
			case "Pointer":
				switch op {
				case "Load":
					return func(e *Exec, c *frame, fn *ssa.Function, a []Value) Value { return *e.deref(c, a[0]) }
				case "Store":
					return func(e *Exec, c *frame, fn *ssa.Function, a []Value) Value {
						e.setCell(e.deref(c, a[0]), a[1])
						return nil
					}
				case "Swap":
					return func(e *Exec, c *frame, fn *ssa.Function, a []Value) Value {
						cell := e.deref(c, a[0])
						old := *cell
						e.setCell(cell, a[1])
						return old
					}
				case "CompareAndSwap":
					return func(e *Exec, c *frame, fn *ssa.Function, a []Value) Value {
						cell := e.deref(c, a[0])
						if (*cell).(UPtr).p == a[1].(UPtr).p {
							e.setCell(cell, a[2])
							return mkBool(true)
						}
						return mkBool(false)
					}
				}
				return nil
			default:
				return nil
			}
			return atomicOp(op, elemT, func(e *Exec, p Value) *Value { return e.deref(nil, p) })
		}
	}
	return nil
}

func atomicOp(op string, elemT types.Type, cellOf func(e *Exec, p Value) *Value) intrinsicFn {
	switch op {
	case "Load":
		return func(e *Exec, c *frame, fn *ssa.Function, a []Value) Value { return *cellOf(e, a[0]) }
	case "Store":
		return func(e *Exec, c *frame, fn *ssa.Function, a []Value) Value {
			e.setCellT(elemT, cellOf(e, a[0]), a[1])
			return nil
		}
	case "Add":
		return func(e *Exec, c *frame, fn *ssa.Function, a []Value) Value {
			cell := cellOf(e, a[0])
			nv := e.binop(token.ADD, elemT, *cell, a[1])
			e.setCellT(elemT, cell, nv)
			return nv
		}
	case "Swap":
		return func(e *Exec, c *frame, fn *ssa.Function, a []Value) Value {
			cell := cellOf(e, a[0])
			old := *cell
			e.setCellT(elemT, cell, a[1])
			return old
		}
	case "CompareAndSwap":
		return func(e *Exec, c *frame, fn *ssa.Function, a []Value) Value {
			cell := cellOf(e, a[0])
			if e.branch(e.binop(token.EQL, elemT, *cell, a[1]).(Sc)) {
				e.setCellT(elemT, cell, a[2])
				return mkBool(true)
			}
			return mkBool(false)
		}
	case "And", "Or":
		return func(e *Exec, c *frame, fn *ssa.Function, a []Value) Value {
			cell := cellOf(e, a[0])
			old := *cell
			tok := token.AND
			if op == "Or" {
				tok = token.OR
			}
			e.setCellT(elemT, cell, e.binop(tok, elemT, old, a[1]))
			return old
		}
	}
	return nil
}


// formatHasLiteral reports whether a fmt format string contains text outside its verbs (then the result is not empty).
func formatHasLiteral(f string) bool {
	for i := 0; i < len(f); i++ {
		if f[i] != '%' {
			return true
		}
		i++
		if i < len(f) && f[i] == '%' {
			return true
		}
		for i < len(f) && !((f[i] >= 'a' && f[i] <= 'z') || (f[i] >= 'A' && f[i] <= 'Z')) {
			i++
		}
	}
	return false
}
