package main

// One long-lived SMT solver process per worker, driven over a pipe with push/pop.
// The solver's assertion stack mirrors a prefix of the executor's path condition, so
// consecutive paths that share a decision prefix share solver state.

import (
	"bufio"
	"fmt"
	"io"
	"os/exec"
	"strconv"
	"strings"
	"time"
)

type SatResult int

const (
	Unsat SatResult = iota
	Sat
	Unknown
)

func (r SatResult) String() string { return [...]string{"unsat", "sat", "unknown"}[r] }

type Solver struct {
	name    string
	cmd     *exec.Cmd
	in      io.WriteCloser
	out     *bufio.Reader
	frames  []*Term        // asserted path-condition terms, one push level each
	defined map[*Term]bool // terms already introduced by define-fun / declare-const
	Queries int
	Time    time.Duration
	Errors  int
	log     io.Writer
	timeout int // ms currently set
	dead    bool
}

func solverArgv(name string) []string {
	switch name {
	case "z3":
		return []string{"z3", "-in"}
	case "z3-new":
		return []string{"z3-new", "-in"}
	case "cvc5":
		return []string{"cvc5", "--incremental", "--produce-models", "--lang=smt2", "-q"}
	}
	return []string{name}
}

func NewSolver(name string, log io.Writer) (*Solver, error) {
	argv := solverArgv(name)
	cmd := exec.Command(argv[0], argv[1:]...)
	in, err := cmd.StdinPipe()
	if err != nil {
		return nil, err
	}
	outp, err := cmd.StdoutPipe()
	if err != nil {
		return nil, err
	}
	cmd.Stderr = nil
	if err := cmd.Start(); err != nil {
		return nil, err
	}
	s := &Solver{name: name, cmd: cmd, in: in, out: bufio.NewReaderSize(outp, 1<<16), defined: map[*Term]bool{}, log: log}
	s.send("(set-option :global-declarations true)")
	s.send("(set-option :produce-models true)")
	s.send("(set-logic QF_BV)")
	return s, nil
}

func (s *Solver) Close() {
	if s.cmd != nil {
		s.in.Close()
		s.cmd.Process.Kill()
		s.cmd.Wait()
		s.cmd = nil
	}
}

func (s *Solver) send(line string) {
	if s.log != nil {
		fmt.Fprintln(s.log, line)
	}
	if _, err := io.WriteString(s.in, line+"\n"); err != nil {
		s.dead = true
	}
}

func (s *Solver) readLine() string {
	line, err := s.out.ReadString('\n')
	if err != nil {
		s.dead = true
		return "(error \"solver died\")"
	}
	return strings.TrimRight(line, "\r\n")
}

// ref returns the name by which term t can be referenced, defining it (and its
// sub-terms) in the solver if necessary.
func (s *Solver) ref(t *Term) string {
	switch t.Op {
	case OpConst:
		return constString(t)
	case OpVar:
		if !s.defined[t] {
			s.send(fmt.Sprintf("(declare-const %s %s)", t.Name, t.sortString()))
			s.defined[t] = true
		}
		return t.Name
	}
	if s.defined[t] {
		return "t" + strconv.Itoa(t.ID)
	}
	// iterative post-order definition to avoid deep recursion
	type item struct {
		t    *Term
		done bool
	}
	stack := []item{{t, false}}
	for len(stack) > 0 {
		it := stack[len(stack)-1]
		stack = stack[:len(stack)-1]
		x := it.t
		if x.Op == OpConst || s.defined[x] {
			continue
		}
		if x.Op == OpVar {
			s.send(fmt.Sprintf("(declare-const %s %s)", x.Name, x.sortString()))
			s.defined[x] = true
			continue
		}
		if !it.done {
			stack = append(stack, item{x, true})
			for _, a := range x.A {
				if a != nil && a.Op != OpConst && !s.defined[a] {
					stack = append(stack, item{a, false})
				}
			}
			continue
		}
		body := x.expr(func(a *Term) string {
			switch a.Op {
			case OpConst:
				return constString(a)
			case OpVar:
				return a.Name
			}
			return "t" + strconv.Itoa(a.ID)
		})
		s.send(fmt.Sprintf("(define-fun t%d () %s %s)", x.ID, x.sortString(), body))
		s.defined[x] = true
	}
	return "t" + strconv.Itoa(t.ID)
}

// syncTo makes the solver's assertion stack equal to pc.
func (s *Solver) syncTo(pc []*Term) {
	n := 0
	for n < len(pc) && n < len(s.frames) && pc[n] == s.frames[n] {
		n++
	}
	if d := len(s.frames) - n; d > 0 {
		s.send(fmt.Sprintf("(pop %d)", d))
		s.frames = s.frames[:n]
	}
	for ; n < len(pc); n++ {
		r := s.ref(pc[n])
		s.send("(push 1)")
		s.send("(assert " + r + ")")
		s.frames = append(s.frames, pc[n])
	}
}

func (s *Solver) setTimeout(ms int) {
	if s.timeout == ms {
		return
	}
	s.timeout = ms
	if s.name == "cvc5" {
		s.send(fmt.Sprintf("(set-option :tlimit-per %d)", ms))
	} else {
		s.send(fmt.Sprintf("(set-option :timeout %d)", ms))
	}
}

// Check decides satisfiability of pc ∧ extra.  If wantModel and the result is sat, the values of vars are returned.
func (s *Solver) Check(pc []*Term, extra *Term, timeoutMs int, vars []*Term) (SatResult, map[string]uint64) {
	if s.dead {
		return Unknown, nil
	}
	start := time.Now()
	defer func() { s.Time += time.Since(start); s.Queries++ }()
	errs0 := s.Errors
	s.syncTo(pc)
	s.setTimeout(timeoutMs)
	var r string
	if extra != nil {
		r = s.ref(extra)
		s.send("(push 1)")
		s.send("(assert " + r + ")")
	}
	s.send("(check-sat)")
	res := Unknown
	for {
		line := s.readLine()
		if strings.HasPrefix(line, "(error") {
			s.Errors++
			if s.dead {
				break
			}
			continue
		}
		switch line {
		case "sat":
			res = Sat
		case "unsat":
			res = Unsat
		case "unknown", "timeout":
			res = Unknown
		default:
			continue
		}
		break
	}
	var model map[string]uint64
	if res == Sat && len(vars) > 0 {
		model = s.getValues(vars)
		if model == nil {
			res = Unknown
		}
	}
	if extra != nil {
		s.send("(pop 1)")
	}
	if s.Errors > errs0 && res != Unknown {
		// any error line makes this query inconclusive
		res = Unknown
	}
	return res, model
}

func (s *Solver) getValues(vars []*Term) map[string]uint64 {
	model := map[string]uint64{}
	// chunk to keep lines reasonable
	for i := 0; i < len(vars); i += 200 {
		j := i + 200
		if j > len(vars) {
			j = len(vars)
		}
		var sb strings.Builder
		sb.WriteString("(get-value (")
		for _, v := range vars[i:j] {
			sb.WriteString(s.ref(v))
			sb.WriteByte(' ')
		}
		sb.WriteString("))")
		s.send(sb.String())
		// read until parentheses balance
		depth := 0
		started := false
		var txt strings.Builder
		for {
			line := s.readLine()
			if strings.HasPrefix(line, "(error") {
				s.Errors++
				return nil
			}
			txt.WriteString(line)
			txt.WriteByte(' ')
			for _, ch := range line {
				if ch == '(' {
					depth++
					started = true
				} else if ch == ')' {
					depth--
				}
			}
			if started && depth == 0 {
				break
			}
			if s.dead {
				return nil
			}
		}
		toks := strings.Fields(strings.NewReplacer("(", " ", ")", " ").Replace(txt.String()))
		for k := 0; k+1 < len(toks); k += 2 {
			name, val := toks[k], toks[k+1]
			var v uint64
			switch {
			case strings.HasPrefix(val, "#x"):
				v, _ = strconv.ParseUint(val[2:], 16, 64)
			case strings.HasPrefix(val, "#b"):
				v, _ = strconv.ParseUint(val[2:], 2, 64)
			case val == "true":
				v = 1
			case val == "false":
				v = 0
			}
			model[name] = v
		}
	}
	return model
}
