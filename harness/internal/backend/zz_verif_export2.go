package backend

import (
	"context"

	"github.com/ProtonMail/gluon/connector"
	"github.com/ProtonMail/gluon/imap"
	"github.com/ProtonMail/gluon/limits"
)

// VerifApplyUpdate delivers a connector update to a user of the backend through the real appliers (user.apply).
func VerifApplyUpdate(b *Backend, userID string, u imap.Update) error {
	return b.users[userID].apply(context.Background(), u)
}

// VerifNewMessageCreated builds the MessagesCreated update for one new message of the given mailboxes.
func VerifNewMessageCreated(id imap.MessageID, literal string, boxes ...imap.MailboxID) imap.Update {
	return imap.NewMessagesCreated(false, verifMessageCreated(id, literal, boxes...))
}

const VerifLit2 = verifLit2

// CreateMailbox: the remote side accepts every new mailbox under a fresh id
func (c *verifCredConn) CreateMailbox(ctx context.Context, cache connector.IMAPStateWrite, name []string) (imap.Mailbox, error) {
	verifCredConnN++
	return imap.Mailbox{ID: imap.MailboxID("mb-created-" + string(rune('0'+verifCredConnN%10)) + string(rune('a'+verifCredConnN/10%26))), Name: name,
		Flags: imap.NewFlagSet(imap.FlagSeen, imap.FlagFlagged, imap.FlagDeleted), PermanentFlags: imap.NewFlagSet(imap.FlagSeen, imap.FlagFlagged, imap.FlagDeleted), Attributes: imap.NewFlagSet()}, nil
}

// VerifSetLimits gives every user of the backend the given limits (sessions opened afterwards inherit them).
func VerifSetLimits(b *Backend, maxMailboxes, maxMessages uint32) {
	lim := limits.NewIMAPLimits(maxMailboxes, maxMessages, imap.UID(1000), imap.UID(4294967295))
	b.imapLimits = lim
	for _, u := range b.users {
		u.imapLimits = lim
	}
}

func (c *verifCredConn) UpdateMailboxName(ctx context.Context, cache connector.IMAPStateWrite, mboxID imap.MailboxID, newName []string) error {
	return nil
}
func (c *verifCredConn) DeleteMailbox(ctx context.Context, cache connector.IMAPStateWrite, mboxID imap.MailboxID) error {
	return nil
}
