package main

import (
	"fmt"
	"io"
	"os"
	"go/token"
	"go/types"
	"runtime/debug"
	"sort"
	"strings"
	"sync"
	"time"

	"golang.org/x/tools/go/ssa"
)

type decision struct {
	val    bool
	forced bool // implied by the path condition: not added to pc
	// summary record: the complete local decision sequences of a summarised call (replayed without the solver)
	sub      [][]decision
	subAbort bool
}

type decider struct {
	prefix []decision
	pos    int
	alts   *[][]decision // local mode: pending alternatives; nil in global mode
}

type Violation struct {
	Kind     string            `json:"kind"` // assert | panic
	Label    string            `json:"label"`
	Known    string            `json:"known,omitempty"`
	Model    map[string]uint64 `json:"model"`
	Stack    []string          `json:"stack,omitempty"`
	Path     int               `json:"path"`
	Decision int               `json:"decisions"`
}

type Stats struct {
	Paths         int
	PathsByEnd    map[string]int
	Branches      int
	Queries       int
	Obligations   int
	Discharged    int
	PanicChecks   int
	Unknowns      int
	Steps         int64
	Summaries     int
	SummaryAborts int
	NontrivPaths  int
	EnumDecided   int
}

type Exec struct {
	P      *Program
	id     int
	ctx    *TermCtx
	solver *Solver
	sched  *Scheduler

	globals  map[*ssa.Global]*Value
	initDone map[*ssa.Package]bool
	locks    map[*Value]int // mutex model: addr of mutex struct cell -> state
	initAborts map[string]string

	// per path
	dec          *decider
	local        *decider
	pc           []*Term
	journal      []jentry
	noJournal    int
	noSummary    int
	steps        int64
	maxDepthSeen int
	varCount     map[string]int
	pathVars     []*Term
	varNames     map[string]string // smt name -> display name
	known        map[string]Sc
	pathObl      int
	ghost        map[string]int64
	ghostTerm    map[string]*Term
	hashBuf      map[*Value][]Value
	durSecs      map[*Term]Sc
	top          *frame
	gors         []*gor
	cur          *gor
	condGen      map[*Value]int
	model        map[string]uint64 // a satisfying assignment of pc (by smt var name), or nil
	domains      map[*Term]*[4]uint64
	domUndo      []domUndo
	pcS          []*Term // the part of pc kept on the solver's assertion stack (multi-variable conjuncts)
	pcSLen       []int
	domTerms     map[domKey]*Term
	violCount    map[string]int
	enumCache    map[enumKey]uint8
	ttCache      map[*Term][4]uint64
	maxDepthAll  int
	timers       []Value

	// accumulated
	stats      Stats
	funcsHit   map[string]int
	intrHit    map[string]int
	cuts       map[string]int
	covers     map[string]int
	violations []Violation
	endMsgs    map[string]int
	samples    []map[string]interface{}
	engineErrs []string
	oblLabels  map[string]int
}

func NewExec(P *Program, id int, sched *Scheduler) (*Exec, error) {
	e := &Exec{P: P, id: id, sched: sched}
	e.ctx = NewTermCtx()
	var lg io.Writer
	if P.cfg.Trace && id == 0 {
		f, _ := os.Create("/tmp/symgo_solver0.smt2")
		lg = f
	}
	s, err := NewSolver(P.cfg.Solver, lg)
	if err != nil {
		return nil, err
	}
	e.solver = s
	e.globals = map[*ssa.Global]*Value{}
	e.initDone = map[*ssa.Package]bool{}
	e.initAborts = map[string]string{}
	e.funcsHit = map[string]int{}
	e.intrHit = map[string]int{}
	e.cuts = map[string]int{}
	e.covers = map[string]int{}
	e.endMsgs = map[string]int{}
	e.oblLabels = map[string]int{}
	e.stats.PathsByEnd = map[string]int{}
	return e, nil
}

func (e *Exec) global(g *ssa.Global) *Value {
	if p, ok := e.globals[g]; ok {
		return p
	}
	if g.Pkg != nil {
		e.ensureInit(g.Pkg)
		if p, ok := e.globals[g]; ok {
			return p
		}
	}
	cell := new(Value)
	*cell = zero(g.Type().(*types.Pointer).Elem())
	e.globals[g] = cell
	return cell
}

// ensureInit runs a package's initialiser (its own variable initialisers only; imported
// packages are initialised lazily the same way).  Init effects are permanent (not journaled).
func (e *Exec) ensureInit(pkg *ssa.Package) {
	if e.initDone[pkg] {
		return
	}
	e.initDone[pkg] = true
	// allocate globals
	for _, m := range pkg.Members {
		if g, ok := m.(*ssa.Global); ok {
			if _, ok := e.globals[g]; !ok {
				cell := new(Value)
				*cell = zero(g.Type().(*types.Pointer).Elem())
				e.globals[g] = cell
			}
		}
	}
	if skipInit(pkg.Pkg.Path()) {
		return
	}
	initFn := pkg.Func("init")
	if initFn == nil || initFn.Blocks == nil {
		return
	}
	e.noJournal++
	e.noSummary++
	savedDec, savedLocal, savedPC := e.dec, e.local, e.pc
	e.dec = &decider{}
	e.local = nil
	e.pc = nil
	savedTop := e.top
	defer func() {
		e.noJournal--
		e.noSummary--
		e.dec, e.local, e.pc = savedDec, savedLocal, savedPC
		if r := recover(); r != nil {
			// partial initialisation is tolerated but recorded
			msg := fmt.Sprintf("%v", r)
			if len(msg) > 200 {
				msg = msg[:200]
			}
			e.initAborts[pkg.Pkg.Path()] = msg + " @ " + strings.ReplaceAll(e.targetStack(), "\n", " | ")
			e.top = savedTop
		}
	}()
	fi := e.P.info(initFn)
	e.runFunc(nil, initFn, fi, nil, nil)
}

// ---------- decisions ----------

type domUndo struct {
	pcLen int
	v     *Term
	old   *[4]uint64
}

func (e *Exec) pushPC(t *Term) {
	e.pc = append(e.pc, t)
	defer func() { e.pcSLen = append(e.pcSLen, len(e.pcS)) }()
	if v := t.SingleSmallVar(); v == nil || e.P.cfg.NoEnum {
		e.pcS = append(e.pcS, t)
	}
	if v := t.SingleSmallVar(); v != nil {
		old := e.domains[v]
		nd := e.domainOf(v)
		tt := e.truthTable(t, v)
		for i := range nd {
			nd[i] &= tt[i]
		}
		e.domUndo = append(e.domUndo, domUndo{len(e.pc), v, old})
		e.domains[v] = &nd
	}
}

// truncPC cuts the path condition back to n conjuncts and restores the byte domains accordingly.
func (e *Exec) truncPC(n int) {
	for len(e.domUndo) > 0 && e.domUndo[len(e.domUndo)-1].pcLen > n {
		u := e.domUndo[len(e.domUndo)-1]
		e.domUndo = e.domUndo[:len(e.domUndo)-1]
		if u.old == nil {
			delete(e.domains, u.v)
		} else {
			e.domains[u.v] = u.old
		}
	}
	e.pc = e.pc[:n]
	e.pcSLen = e.pcSLen[:n]
	if n == 0 {
		e.pcS = e.pcS[:0]
	} else {
		e.pcS = e.pcS[:e.pcSLen[n-1]]
	}
}

// domTerm is the conjunction of the byte-domain constraints (the single-variable part of the path condition).
func (e *Exec) domTerm() *Term {
	res := e.ctx.True
	if e.P.cfg.NoEnum {
		return res
	}
	vars := make([]*Term, 0, len(e.domains))
	for v := range e.domains {
		vars = append(vars, v)
	}
	sort.Slice(vars, func(i, j int) bool { return vars[i].ID < vars[j].ID })
	for _, v := range vars {
		d := e.domains[v]
		key := domKey{v, *d}
		t, ok := e.domTerms[key]
		if !ok {
			n := nvals(v)
			t = e.ctx.False
			if v.W == 0 {
				switch d[0] & 3 {
				case 1:
					t = e.ctx.Not(v)
				case 2:
					t = v
				case 3:
					t = e.ctx.True
				}
				n = 0
			}
			for k := 0; k < n; {
				if d[k>>6]&(1<<(uint(k)&63)) == 0 {
					k++
					continue
				}
				lo := k
				for k < n && d[k>>6]&(1<<(uint(k)&63)) != 0 {
					k++
				}
				hi := k - 1
				var r *Term
				if lo == hi {
					r = e.ctx.Eq(v, e.ctx.BV(uint64(lo), v.W))
				} else {
					r = e.ctx.And(e.ctx.Ule(e.ctx.BV(uint64(lo), v.W), v), e.ctx.Ule(v, e.ctx.BV(uint64(hi), v.W)))
				}
				t = e.ctx.Or(t, r)
			}
			e.domTerms[key] = t
		}
		res = e.ctx.And(res, t)
	}
	return res
}

type enumKey struct {
	c *Term
	d [4]uint64
}

type domKey struct {
	v *Term
	d [4]uint64
}

// domainOf returns (a copy of) the set of values of a small variable allowed by the single-variable conjuncts of pc.
func (e *Exec) domainOf(v *Term) [4]uint64 {
	if d, ok := e.domains[v]; ok {
		return *d
	}
	var d [4]uint64
	n := nvals(v)
	for k := 0; k < n; k++ {
		d[k>>6] |= 1 << (uint(k) & 63)
	}
	return d
}

func evalWith(t *Term, v *Term, val uint64) uint64 {
	return t.Eval(map[string]uint64{v.Name: val}, map[*Term]uint64{})
}

// enumBranch decides the feasibility of both outcomes of a condition that depends on one small variable only,
// by enumerating the values the path condition's single-variable conjuncts allow (an over-approximation of the
// feasible values: sound for exploration; obligations are always decided by the solver under the full pc).
func (e *Exec) enumBranch(c *Term, v *Term) (canT, canF bool) {
	d := e.domainOf(v)
	tt := e.truthTable(c, v)
	for i := range d {
		if d[i]&tt[i] != 0 {
			canT = true
		}
		if d[i]&^tt[i] != 0 {
			canF = true
		}
	}
	e.stats.EnumDecided++
	return
}

func (e *Exec) check(extra *Term, timeout int, vars []*Term) (SatResult, map[string]uint64) {
	e.stats.Queries++
	dt := e.domTerm()
	if extra == nil {
		extra = dt
	} else {
		extra = e.ctx.And(extra, dt)
	}
	if extra.Op == OpConst && extra.K == 0 {
		return Unsat, nil
	}
	r, m := e.solver.Check(e.pcS, extra, timeout, vars)
	if r == Unknown {
		e.stats.Unknowns++
	}
	return r, m
}

// checkObl decides an obligation; an `unknown` (time limit - on a loaded machine a solver process can be starved) is
// asked once more with three times the limit before the path is given up as inconclusive.
func (e *Exec) checkObl(q *Term) (SatResult, map[string]uint64) {
	r, m := e.check(q, e.P.cfg.OblTimeoutMs, e.pathVars)
	if r == Unknown {
		e.stats.Unknowns--
		r, m = e.check(q, 3*e.P.cfg.OblTimeoutMs, e.pathVars)
	}
	if r == Unknown {
		// the long-lived incremental solver of this worker is stuck on the query (observed: one query in ~500 000 of
		// the C15 harness, a different one in each run): ask fresh solver processes, cvc5 then z3
		extra := e.ctx.And(q, e.domTerm())
		for _, name := range []string{"cvc5", "z3"} {
			s2, err := NewSolver(name, nil)
			if err != nil {
				continue
			}
			r2, m2 := s2.Check(e.pcS, extra, 2*e.P.cfg.OblTimeoutMs, e.pathVars)
			s2.Close()
			if r2 != Unknown {
				e.stats.Unknowns--
				e.intrHit["obligation decided by a fresh "+name+" process (the worker's incremental solver answered unknown)"]++
				return r2, m2
			}
		}
	}
	return r, m
}

func (e *Exec) curDec() *decider {
	if e.local != nil {
		return e.local
	}
	return e.dec
}

// evalModel evaluates a Bool term under the cached model of the current path condition.
func (e *Exec) evalModel(t *Term) (bool, bool) {
	if e.model == nil {
		return false, false
	}
	return t.Eval(e.model, map[*Term]uint64{}) != 0, true
}

func normSc(c Sc) Sc {
	if c.T != nil && c.T.Op == OpConst {
		return Sc{C: c.T.K}
	}
	return c
}

func (e *Exec) branch(c Sc) bool {
	c = normSc(c)
	if c.T == nil {
		return c.C != 0
	}
	d := e.curDec()
	if d.pos < len(d.prefix) {
		dc := d.prefix[d.pos]
		d.pos++
		if !dc.forced {
			if dc.val {
				e.pushPC(c.T)
			} else {
				e.pushPC(e.ctx.Not(c.T))
			}
			e.model = nil
		}
		return dc.val
	}
	e.stats.Branches++
	tT := c.T
	tF := e.ctx.Not(c.T)
	if v := tT.SingleSmallVar(); v != nil && e.P.cfg.NoEnum == false {
		canT, canF := e.enumBranch(tT, v)
		switch {
		case !canT && !canF:
			panic(pathEnd{endInfeasible, "empty byte domain"})
		case !canT:
			d.prefix = append(d.prefix, decision{val: false, forced: true})
			d.pos++
			return false
		case !canF:
			d.prefix = append(d.prefix, decision{val: true, forced: true})
			d.pos++
			return true
		}
		alt := make([]decision, d.pos+1)
		copy(alt, d.prefix[:d.pos])
		alt[d.pos] = decision{val: false, forced: false}
		if d.alts != nil {
			*d.alts = append(*d.alts, alt)
		} else {
			e.sched.push(e.id, alt)
		}
		d.prefix = append(d.prefix, decision{val: true, forced: false})
		d.pos++
		e.pushPC(tT)
		if ok, have := e.evalModel(tT); have && !ok {
			e.model = nil
		}
		return true
	}
	canT, canF := false, false
	var mT, mF map[string]uint64
	if v, ok := e.evalModel(tT); ok {
		if v {
			canT, mT = true, e.model
		} else {
			canF, mF = true, e.model
		}
	}
	if !canT {
		r, m := e.check(tT, e.P.cfg.BranchTimeoutMs, e.pathVars)
		if r == Unsat {
			d.prefix = append(d.prefix, decision{val: false, forced: true})
			d.pos++
			return false
		}
		canT = true
		if r == Sat {
			mT = m
		}
	}
	if !canF {
		r, m := e.check(tF, e.P.cfg.BranchTimeoutMs, e.pathVars)
		if r == Unsat {
			d.prefix = append(d.prefix, decision{val: true, forced: true})
			d.pos++
			if mT != nil {
				e.model = mT
			}
			return true
		}
		if r == Sat {
			mF = m
		}
	}
	_ = mF
	alt := make([]decision, d.pos+1)
	copy(alt, d.prefix[:d.pos])
	alt[d.pos] = decision{val: false, forced: false}
	if d.alts != nil {
		*d.alts = append(*d.alts, alt)
	} else {
		e.sched.push(e.id, alt)
	}
	d.prefix = append(d.prefix, decision{val: true, forced: false})
	d.pos++
	e.pushPC(tT)
	e.model = mT
	return true
}

func (e *Exec) assume(c Sc) {
	c = normSc(c)
	if c.T == nil {
		if c.C == 0 {
			panic(pathEnd{endInfeasible, "assumption false"})
		}
		return
	}
	d := e.curDec()
	if d.pos < len(d.prefix) {
		dc := d.prefix[d.pos]
		d.pos++
		if !dc.forced {
			e.pushPC(c.T)
			e.model = nil
		}
		return
	}
	if v, ok := e.evalModel(c.T); !ok || !v {
		r, m := e.check(c.T, e.P.cfg.BranchTimeoutMs, e.pathVars)
		if r == Unsat {
			panic(pathEnd{endInfeasible, "assumption infeasible"})
		}
		e.model = m // nil when unknown
	}
	d.prefix = append(d.prefix, decision{val: true, forced: false})
	d.pos++
	e.pushPC(c.T)
}

// obligation checks that c holds on every completion of the current path condition.
func (e *Exec) obligation(fr *frame, c Sc, label string) {
	c = normSc(c)
	if e.local != nil {
		panic(summaryAbort{"obligation inside summarised function"})
	}
	d := e.dec
	if d.pos < len(d.prefix) {
		// already decided on an earlier execution of this prefix
		dc := d.prefix[d.pos]
		d.pos++
		e.pathObl++
		if dc.val { // was violated: continue under the assumption that it holds
			if c.T == nil {
				panic(pathEnd{endViolationStop, "assertion fails on all continuations"})
			}
			if !dc.forced {
				e.pushPC(c.T)
				e.model = nil
			}
		}
		return
	}
	e.stats.Obligations++
	e.pathObl++
	e.oblLabels[label]++
	var neg *Term
	if c.T == nil {
		if c.C != 0 {
			e.stats.Discharged++
			d.prefix = append(d.prefix, decision{val: false, forced: true})
			d.pos++
			return
		}
		neg = e.ctx.True
	} else {
		neg = e.ctx.Not(c.T)
	}
	violated := e.reportIfSat(fr, neg, "assert", label)
	if !violated {
		e.stats.Discharged++
		d.prefix = append(d.prefix, decision{val: false, forced: true})
		d.pos++
		return
	}
	d.prefix = append(d.prefix, decision{val: true, forced: false})
	d.pos++
	if c.T == nil {
		panic(pathEnd{endViolationStop, "assertion fails on all continuations"})
	}
	r, m := e.check(c.T, e.P.cfg.BranchTimeoutMs, e.pathVars)
	if r == Unsat {
		panic(pathEnd{endViolationStop, "assertion fails on all continuations"})
	}
	e.pushPC(c.T)
	e.model = m
}

// reportIfSat decides pc ∧ bad; on sat it records a violation (split by known-finding classes).
func (e *Exec) reportIfSat(fr *frame, bad *Term, kind, label string) bool {
	// known classes
	var knownOr *Term = e.ctx.False
	var tags []string
	for tag := range e.known {
		tags = append(tags, tag)
	}
	sort.Strings(tags)
	for _, tag := range tags {
		if e.P.cfg.knownTag(tag) {
			knownOr = e.ctx.Or(knownOr, e.term(e.known[tag], kindInfo{isBool: true}))
		}
	}
	found := false
	q := e.ctx.And(bad, e.ctx.Not(knownOr))
	if !(q.Op == OpConst && q.K == 0) {
		r, model := e.checkObl(q)
		switch r {
		case Sat:
			e.addViolation(fr, kind, label, "", model)
			found = true
		case Unknown:
			e.endMsgs["obligation-unknown:"+label]++
			e.stats.PathsByEnd["obligation-unknown"]++
		}
	}
	for _, tag := range tags {
		if !e.P.cfg.knownTag(tag) {
			continue
		}
		k := e.term(e.known[tag], kindInfo{isBool: true})
		qk := e.ctx.And(bad, k)
		if qk.Op == OpConst && qk.K == 0 {
			continue
		}
		r, model := e.checkObl(qk)
		if r == Sat {
			e.addViolation(fr, kind, label, tag, model)
			found = true
		} else if r == Unknown {
			e.endMsgs["obligation-unknown:"+label]++
			e.stats.PathsByEnd["obligation-unknown"]++
		}
	}
	return found
}

func (e *Exec) addViolation(fr *frame, kind, label, known string, model map[string]uint64) {
	disp := map[string]uint64{}
	for smt, v := range model {
		if n, ok := e.varNames[smt]; ok {
			disp[n] = v
		}
	}
	var stack []string
	for f := fr; f != nil && len(stack) < 12; f = f.caller {
		stack = append(stack, f.fn.String())
	}
	// keep a bounded number of witnesses per (class, obligation): a flood of known-finding witnesses must never
	// crowd out a violation outside the known classes
	key := known + "\x00" + kind + "\x00" + label
	if e.violCount == nil {
		e.violCount = map[string]int{}
	}
	e.violCount[key]++
	if e.violCount[key] <= 8 {
		e.violations = append(e.violations, Violation{Kind: kind, Label: label, Known: known, Model: disp, Stack: stack, Path: e.stats.Paths, Decision: len(e.dec.prefix)})
	}
}

// ---------- vsym variables ----------

func sanitize(s string) string {
	var sb strings.Builder
	for _, r := range s {
		if r >= 'a' && r <= 'z' || r >= 'A' && r <= 'Z' || r >= '0' && r <= '9' || r == '_' {
			sb.WriteRune(r)
		} else {
			sb.WriteByte('_')
		}
	}
	return sb.String()
}

func (e *Exec) freshVar(name string, w uint8) *Term {
	if e.local != nil {
		panic(summaryAbort{"fresh variable inside summarised function"})
	}
	k := e.varCount[name]
	e.varCount[name] = k + 1
	disp := fmt.Sprintf("%s#%d", name, k)
	smt := fmt.Sprintf("v_%s_%d", sanitize(name), k)
	if w == 0 {
		smt = "b" + smt
	} else {
		smt = fmt.Sprintf("%s_w%d", smt, w)
	}
	t := e.ctx.Var(smt, w)
	e.varNames[smt] = disp
	e.pathVars = append(e.pathVars, t)
	return t
}

// ---------- running one path ----------

type pathOutcome struct {
	end string
	msg string
}

func (e *Exec) runPath(prefix []decision, entry *ssa.Function) (out pathOutcome) {
	e.dec = &decider{prefix: prefix}
	e.local = nil
	e.pc = e.pc[:0]
	e.domains = map[*Term]*[4]uint64{}
	e.domUndo = e.domUndo[:0]
	e.pcS = e.pcS[:0]
	e.pcSLen = e.pcSLen[:0]
	if e.domTerms == nil {
		e.domTerms = map[domKey]*Term{}
		e.enumCache = map[enumKey]uint8{}
		e.ttCache = map[*Term][4]uint64{}
	}
	e.steps = 0
	e.maxDepthSeen = 0
	e.varCount = map[string]int{}
	e.pathVars = e.pathVars[:0]
	e.varNames = map[string]string{}
	e.known = map[string]Sc{}
	e.pathObl = 0
	e.ghost = map[string]int64{}
	e.ghostTerm = map[string]*Term{}
	e.hashBuf = map[*Value][]Value{}
	e.durSecs = map[*Term]Sc{}
	e.locks = map[*Value]int{}
	e.timers = nil
	e.top = nil
	e.model = nil
	e.condGen = map[*Value]int{}
	defer func() {
		e.stats.Steps += e.steps
		e.killGoroutines()
		e.undoTo(0)
	}()
	defer func() {
		r := recover()
		if r == nil {
			return
		}
		switch r := r.(type) {
		case pathEnd:
			out = pathOutcome{r.kind.String(), r.msg}
		case targetPanic:
			msg := e.panicString(r.v)
			// an uncaught panic of the interpreted program is a violation
			if e.dec.pos >= len(e.dec.prefix) {
				e.stats.Obligations++
				e.oblLabels["no-panic"]++
				if !e.reportIfSat(nil, e.ctx.True, "panic", msg) {
					e.engineErrs = append(e.engineErrs, "uncaught panic on infeasible path: "+msg)
				}
			}
			out = pathOutcome{"panic", msg}
		case summaryAbort:
			out = pathOutcome{"engine-error", "summaryAbort escaped: " + r.why}
			e.engineErrs = append(e.engineErrs, out.msg)
		default:
			out = pathOutcome{"engine-error", fmt.Sprintf("%v\nTARGET STACK:\n%s\n%s", r, e.targetStack(), debug.Stack())}
			if len(e.engineErrs) < 5 {
				e.engineErrs = append(e.engineErrs, out.msg)
			}
		}
	}()
	e.callSSA(nil, token.NoPos, entry, nil, nil)
	return pathOutcome{"done", ""}
}

func (e *Exec) targetStack() string {
	var sb strings.Builder
	n := 0
	for f := e.top; f != nil && n < 25; f = f.caller {
		pos := ""
		if f.cur != nil {
			pos = e.P.fset.Position(f.cur.Pos()).String()
			fmt.Fprintf(&sb, "  %s  [%s] %v\n", f.fn, pos, f.cur)
		} else {
			fmt.Fprintf(&sb, "  %s\n", f.fn)
		}
		n++
	}
	return sb.String()
}

func (e *Exec) panicString(v Value) string {
	if it, ok := v.(Iface); ok {
		if it.t == nil {
			return "panic(nil)"
		}
		if s, ok := it.v.(Str); ok {
			return s.dbg()
		}
		// error / Stringer
		func() {
			defer func() { recover() }()
		}()
		return fmt.Sprintf("%s: %s", it.t, describe(it.v))
	}
	return describe(v)
}

// ---------- scheduler ----------

type Scheduler struct {
	mu      sync.Mutex
	cond    *sync.Cond
	queues  [][][]decision
	idle    int
	n       int
	stop    bool
	started time.Time
	limit   time.Duration
	timedOut bool
	pathCap  int
	paths    int
}

func NewScheduler(n int, limit time.Duration, pathCap int) *Scheduler {
	s := &Scheduler{n: n, queues: make([][][]decision, n), limit: limit, started: time.Now(), pathCap: pathCap}
	s.cond = sync.NewCond(&s.mu)
	return s
}

func (s *Scheduler) push(id int, p []decision) {
	s.mu.Lock()
	s.queues[id] = append(s.queues[id], p)
	if s.idle > 0 {
		s.cond.Signal()
	}
	s.mu.Unlock()
}

// next returns the next prefix for worker id: own newest first, else steal the oldest of another.
func (s *Scheduler) next(id int) ([]decision, bool) {
	s.mu.Lock()
	defer s.mu.Unlock()
	for {
		if s.stop {
			return nil, false
		}
		if s.limit > 0 && time.Since(s.started) > s.limit {
			s.timedOut = true
			s.stop = true
			s.cond.Broadcast()
			return nil, false
		}
		if s.pathCap > 0 && s.paths >= s.pathCap {
			s.timedOut = true
			s.stop = true
			s.cond.Broadcast()
			return nil, false
		}
		if q := s.queues[id]; len(q) > 0 {
			p := q[len(q)-1]
			s.queues[id] = q[:len(q)-1]
			s.paths++
			return p, true
		}
		for k := 1; k < s.n; k++ {
			j := (id + k) % s.n
			if q := s.queues[j]; len(q) > 0 {
				p := q[0]
				s.queues[j] = q[1:]
				s.paths++
				return p, true
			}
		}
		s.idle++
		if s.idle == s.n {
			s.stop = true
			s.cond.Broadcast()
			return nil, false
		}
		s.cond.Wait()
		s.idle--
	}
}

func (s *Scheduler) pending() int {
	s.mu.Lock()
	defer s.mu.Unlock()
	n := 0
	for _, q := range s.queues {
		n += len(q)
	}
	return n
}
